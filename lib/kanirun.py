"""E1 engine driver: stage /repo's working tree, build it with Kani + model crates, run the
proof harnesses of one property, classify every verdict, replay counterexamples natively,
write evidence.  See DESIGN.md sections 1, 3 (E1) and 4.

Exit-code contract (per check): 0 = every harness decided and held; 1 = a violation that was
replayed (VIOLATION line printed); 2 = inconclusive (timeout, OOM, unsupported construct,
unwinding assertion on a non-termination harness, vacuous harness, non-reproducing trace).
"""
import concurrent.futures as cf
import json
import os
import re
import resource
import shutil
import signal
import subprocess
import sys
import time

VERIF = os.path.dirname(os.path.dirname(os.path.abspath(__file__)))
REPO = os.environ.get("VERIF_REPO", "/repo")
SCRATCH_ROOT = os.environ.get("VERIF_SCRATCH", "/var/tmp/verif-scratch")
# where evidence/, logs/ and replay/generated/ are written (seed experiments redirect this)
OUT = os.environ.get("VERIF_OUT", VERIF)
MODULES = [
    "entry", "cache", "local_cache", "anycache", "asset", "error", "key", "dirs", "lib",
    "utils_bytes", "utils_string", "utils_cell", "utils_private",
    "hot_reloading_mod", "hot_reloading_paths", "hot_reloading_dependencies",
    "hot_reloading_records",
]
MODELS = ["ahash", "log", "parking_lot", "crossbeam-channel", "once_cell", "notify"]
FEATURES = "hot-reloading,utils,parking_lot"

INCONCLUSIVE_CLASSES = ("unsupported_construct", "missing_definition", "sanity_check", "reachability_check")


def log(*a):
    print(*a, flush=True)


def _die(msg):
    log("INCONCLUSIVE machinery error: " + msg)
    sys.exit(2)


# --------------------------------------------------------------------------------------------
# harness registry
class Harness:
    def __init__(self, prop, module, name, meta):
        self.prop, self.module, self.name, self.meta = prop, module, name, meta
        self.tier = meta.get("tier", "quick")
        self.kind = meta.get("kind", "prop")  # prop | bounded_termination | should_fail
        self.timeout = int(meta.get("timeout", "600"))
        self.mem_gb = int(meta.get("mem", "16"))
        self.flags = meta.get("flags", "").replace("+", " ").split() if meta.get("flags") else []
        self.role = meta.get("role", name).replace("+", " ")
        self.weight = int(meta.get("weight", "1"))  # rough parallel-slot cost (1 = light)
        self.cap = int(meta["cap"]) if "cap" in meta else None  # model-map capacity this harness is built with
        self.feat = meta.get("feat")  # None = default feature set (with parking_lot model); "std" = std locks


# property -> harness directories under incrate/ (default: the directory named like the property)
DIRS = {}


def dirs_of(prop):
    return DIRS.get(prop, [prop])


def scan_harnesses(prop):
    out = []
    for sub in dirs_of(prop):
        d = os.path.join(VERIF, "incrate", sub)
        if not os.path.isdir(d):
            continue
        for fn in sorted(os.listdir(d)):
            if not fn.endswith(".rs"):
                continue
            module = fn[:-3]
            if module not in MODULES:
                _die(f"harness file {fn}: unknown module")
            text = open(os.path.join(d, fn)).read()
            for m in re.finditer(r"//\s*@h\s+([^\n]*)\n", text):
                meta = dict(kv.split("=", 1) for kv in m.group(1).split() if "=" in kv)
                name = meta.get("name")
                if not name or not re.search(r"\b%s\s*[(,]" % re.escape(name), text):
                    _die(f"{fn}: @h line without matching fn: {m.group(1)}")
                if "props" in meta and prop not in meta["props"].split(","):
                    continue
                out.append(Harness(prop, module, name, meta))
    names = [h.name for h in out]
    for a in names:
        for b in names:
            if a != b and a in b:
                _die(f"harness name {a} is a substring of {b}")
    return out


# --------------------------------------------------------------------------------------------
# staging
def features_of(feat):
    return "hot-reloading,utils" if feat == "std" else FEATURES


def stage(prop, tag, seed, cap=None, feat=None):
    root = os.path.join(SCRATCH_ROOT, f"{prop}-{tag}-{os.getpid()}" + (f"-cap{cap}" if cap else "") + (f"-{feat}" if feat else ""))
    shutil.rmtree(root, ignore_errors=True)
    os.makedirs(os.path.join(root, "verifroot", "incrate"))
    subprocess.check_call(["rsync", "-a", "--exclude", "target", "--exclude", ".git", REPO + "/", os.path.join(root, "repo") + "/"])
    for m in MODULES:
        parts = []
        # the std-lock build only contains the harness directories written for it (suffix _std)
        subs = ["common"] + [d for d in dirs_of(prop) if (d.endswith("_std")) == (feat == "std")]
        for sub in subs:
            p = os.path.join(VERIF, "incrate", sub, m + ".rs")
            if os.path.exists(p):
                parts.append(f"// ---- {sub}/{m}.rs\n" + open(p).read())
        open(os.path.join(root, "verifroot", "incrate", m + ".rs"), "w").write("\n".join(parts))
    # staged-copy-only edits (never touch /repo): drop dev-dependencies/examples/workspace members and
    # empty the crate's own #[cfg(test)] modules, so that native playback builds (test profile)
    # do not need dev-dependencies compiled against the model crates.
    ct = os.path.join(root, "repo", "Cargo.toml")
    toml = open(ct).read()
    toml = re.sub(r"\n\[dev-dependencies\]\n.*?(?=\n\[)", "\n", toml, flags=re.S)
    toml = re.sub(r"\n\[\[example\]\]\n.*?(?=\n\[(?!\[example))", "\n", toml, flags=re.S)
    toml = re.sub(r"members = \[[^\]]*\]", 'members = ["."]', toml)
    open(ct, "w").write(toml)
    for dp, _dn, fns_ in os.walk(os.path.join(root, "repo", "src")):
        for fn in fns_:
            if fn == "tests.rs":
                open(os.path.join(dp, fn), "w").write("// emptied in the staged copy (test-only module)\n")
            elif fn.endswith(".rs"):
                # the crate's collections are the model table in this build (import twins in utils/private.rs and
                # hot_reloading/dependencies.rs); a change that names std's entry type elsewhere gets the model's
                fp = os.path.join(dp, fn)
                src = open(fp).read()
                if "std::collections::hash_map::Entry" in src and "#[cfg(not(kani))]" not in src:
                    open(fp, "w").write(src.replace("std::collections::hash_map::Entry", "crate::utils::model_collections::Entry"))
    shutil.rmtree(os.path.join(root, "repo", "examples"), ignore_errors=True)
    os.makedirs(os.path.join(root, "repo", ".cargo"), exist_ok=True)
    cfg = ["[net]", "offline = true", "[patch.crates-io]"]
    for m in MODELS:
        cfg.append('%s = { path = "%s/models/%s" }' % (m, VERIF, m))
    cfg += ["[env]", 'ASSETS_MANAGER_VERIF = "%s/verifroot"' % root, 'VERIF_SEED = "%d"' % seed]
    if cap is None:
        cap = META.get(prop, {}).get("map_cap")
        if isinstance(cap, dict):
            cap = cap.get(tag)
    if cap:
        cfg.append('VERIF_MAP_CAP = "%d"' % cap)
    open(os.path.join(root, "repo", ".cargo", "config.toml"), "w").write("\n".join(cfg) + "\n")
    return root


def hook_check():
    """The hooks must be present in the working tree (a change that drops them is not decidable)."""
    missing = []
    for m in MODULES:
        rel = {"lib": "lib"}.get(m, m)
        path = m.replace("utils_", "utils/").replace("hot_reloading_", "hot_reloading/")
        f = os.path.join(REPO, "src", path + ".rs")
        try:
            if ('"/incrate/%s.rs"' % m) not in open(f).read():
                missing.append(m)
        except OSError:
            missing.append(m)
    return missing


# --------------------------------------------------------------------------------------------
def _limits(mem_gb):
    def f():
        os.setsid()
        lim = mem_gb * (1 << 30)
        resource.setrlimit(resource.RLIMIT_AS, (lim, lim))
    return f


def run_cmd(cmd, cwd, timeout, mem_gb=None, env=None):
    t0 = time.time()
    p = subprocess.Popen(cmd, cwd=cwd, stdout=subprocess.PIPE, stderr=subprocess.STDOUT, text=True,
                         preexec_fn=_limits(mem_gb) if mem_gb else os.setsid, env=env)
    try:
        out, _ = p.communicate(timeout=timeout)
        to = False
    except subprocess.TimeoutExpired:
        try:
            os.killpg(p.pid, signal.SIGKILL)
        except ProcessLookupError:
            pass
        out, _ = p.communicate()
        to = True
    return p.returncode, out, time.time() - t0, to


def kani_env():
    e = dict(os.environ)
    e["CARGO_NET_OFFLINE"] = "true"
    e.pop("RUSTFLAGS", None)
    return e


def build(root, log_path, feat=None):
    cmd = ["cargo", "kani", "-Z", "stubbing", "--features", features_of(feat), "--target-dir", os.path.join(root, "target"), "--only-codegen"]
    rc, out, dt, to = run_cmd(cmd, os.path.join(root, "repo"), 1800, env=kani_env())
    open(log_path, "w").write(out)
    return rc == 0 and not to, out, dt


CHECK_RE = re.compile(r"^Check (\d+): ([^\n]+)\n\t - Status: (\w+)\n\t - Description: \"(.*?)\"\n\t - Location: ([^\n]*)$", re.M | re.S)


def parse_kani(out):
    checks = []
    for m in CHECK_RE.finditer(out):
        checks.append({"n": int(m.group(1)), "id": m.group(2), "status": m.group(3), "desc": m.group(4), "loc": m.group(5)})
    verdict = None
    m = re.search(r"VERIFICATION:- (\w+)", out)
    if m:
        verdict = m.group(1)
    stats = {}
    m = re.findall(r"(\d+) variables, (\d+) clauses", out)
    if m:
        stats["sat_variables_max"] = max(int(a) for a, _ in m)
        stats["sat_clauses_max"] = max(int(b) for _, b in m)
        stats["solver_calls"] = len(m)
    m = re.findall(r"Runtime decision procedure: ([0-9.e+-]+)s", out)
    if m:
        stats["solver_s"] = round(sum(float(x) for x in m), 3)
    m = re.search(r"Runtime Symex: ([0-9.e+-]+)s", out)
    if m:
        stats["symex_s"] = float(m.group(1))
    m = re.search(r"Generated (\d+) VCC\(s\), (\d+) remaining after simplification", out)
    if m:
        stats["vccs"] = int(m.group(1))
        stats["vccs_remaining"] = int(m.group(2))
    m = re.search(r"size of program expression: (\d+) steps", out)
    if m:
        stats["program_steps"] = int(m.group(1))
    return checks, verdict, stats


MEM_PATTERNS = ("rust_dealloc must be called", "dynamically allocated memory never freed", "dereference failure",
                "double free", "free argument", "deallocated dynamic object", "Offset result", "pointer relation",
                "misaligned", "memcpy", "memmove", "memcmp", "pointer NULL", "pointer invalid", "same object violation",
                "pointer arithmetic", "realloc")


def mem_class(desc):
    return any(p in desc for p in MEM_PATTERNS)


def check_class(cid):
    # e.g. "entry::verif::foo.assertion.1" -> "assertion"; "...unwind.0"
    parts = cid.split(".")
    return parts[-2] if len(parts) >= 2 else cid


def run_harness(root, h, logdir):
    cmd = ["cargo", "kani", "-Z", "stubbing", "--features", features_of(h.feat), "--target-dir", os.path.join(root, "target"),
           "--harness", h.name] + h.flags
    rc, out, dt, to = run_cmd(cmd, os.path.join(root, "repo"), h.timeout, mem_gb=h.mem_gb, env=kani_env())
    open(os.path.join(logdir, h.name + ".log"), "w").write(out)
    checks, verdict, stats = parse_kani(out)
    res = {"harness": h.name, "module": h.module, "role": h.role, "kind": h.kind, "tier": h.tier,
           "wall_s": round(dt, 2), "stats": stats, "timeout": to, "rc": rc,
           "n_checks": len(checks)}
    failed = [c for c in checks if c["status"] == "FAILURE"]
    undet = [c for c in checks if c["status"] == "UNDETERMINED"]
    covers = [c for c in checks if check_class(c["id"]) == "cover"]
    # a witness whose text starts with "@<harness>:" is only required in that harness
    covers = [c for c in covers if not (c["desc"].startswith("@") and not c["desc"].startswith("@" + h.name + ":"))]
    res["covers"] = {"total": len(covers), "satisfied": sum(1 for c in covers if c["status"] == "SATISFIED")}
    res["reachable_checks"] = sum(1 for c in checks if c["status"] in ("SUCCESS", "FAILURE", "SATISFIED"))
    res["failed_checks"] = [{"id": c["id"], "desc": c["desc"], "loc": c["loc"]} for c in failed][:20]
    fns = set()
    for c in checks:
        m = re.match(r"(src/\S+?):\d+:\d+ in function (.*)$", c["loc"])
        if m and "verif_" not in m.group(2):
            fns.add(m.group(2))
    res["repo_functions"] = sorted(fns)
    # ---- classification
    if to:
        res["outcome"] = "inconclusive"; res["why"] = f"timeout after {h.timeout}s"
    elif verdict is None:
        why = "no verdict"
        if "Solver ran out of memory" in out or "Out of memory" in out or "CBMC failed with status" in out or "Status: ERROR" in out or "out of memory" in out.lower() or "std::bad_alloc" in out:
            why = "CBMC error / out of memory"
        elif "error: internal compiler error" in out or "Kani unexpectedly panicked" in out:
            why = "Kani internal error"
        elif re.search(r"^error", out, re.M):
            why = "build error"
        res["outcome"] = "inconclusive"; res["why"] = why
    else:
        unwind_fail = [c for c in failed if check_class(c["id"]) == "unwind" or "unwinding assertion" in c["desc"]]
        incl_fail = [c for c in failed if check_class(c["id"]) in INCONCLUSIVE_CLASSES
                     or "is not currently supported by Kani" in c["desc"]]
        real_fail = [c for c in failed if c not in unwind_fail and c not in incl_fail]
        unsat_covers = [c for c in covers if c["status"] != "SATISFIED"]
        if h.kind == "bounded_termination":
            # a failed unwinding assertion inside the repository's own code is the violation
            # (unbounded recursion / loop); one in the harness, a model or std only means the bound is too small
            in_repo = [c for c in unwind_fail if c["loc"].startswith("src/")]
            real_fail = real_fail + in_repo
            unwind_fail = [c for c in unwind_fail if c not in in_repo]
        if h.kind == "must_panic":
            # every path must end in the crate's own panic `expect`; nothing else may fail,
            # and the code after the call must be unreachable
            exp = h.meta.get("expect", "").replace("+", " ")
            expected = [c for c in real_fail if exp and exp in c["desc"]]
            other = [c for c in real_fail if c not in expected]
            if other:
                res["outcome"] = "fail"
                res["why"] = "; ".join(sorted(set(c["desc"] for c in other))[:5])
                res["mem_only"] = all(mem_class(c["desc"]) for c in other)
            elif incl_fail or unwind_fail:
                res["outcome"] = "inconclusive"; res["why"] = "unsupported construct / unwinding"
            elif not expected:
                res["outcome"] = "fail"; res["why"] = f"expected panic '{exp}' is not reachable (the call returned or panics differently)"
                res["mem_only"] = False
            else:
                res["outcome"] = "pass"
        elif h.kind == "should_fail":
            # vacuity / sensitivity twin: must come back violated
            if real_fail:
                res["outcome"] = "pass"
            else:
                res["outcome"] = "inconclusive"; res["why"] = "witness harness did not fail (harness family is vacuous)"
        elif real_fail:
            res["outcome"] = "fail"
            res["why"] = "; ".join(sorted(set(c["desc"] for c in real_fail))[:5])
            res["mem_only"] = all(mem_class(c["desc"]) for c in real_fail)
        elif incl_fail:
            res["outcome"] = "inconclusive"; res["why"] = "unsupported/missing definition: " + incl_fail[0]["desc"][:120]
        elif unwind_fail:
            res["outcome"] = "inconclusive"; res["why"] = "unwinding assertion failed (bound too small): " + unwind_fail[0]["loc"][:160]
        elif undet:
            res["outcome"] = "inconclusive"; res["why"] = "undetermined checks"
        elif verdict != "SUCCESSFUL":
            res["outcome"] = "inconclusive"
            res["why"] = "solver ran out of memory" if "ran out of memory" in out else "verdict " + verdict
        elif unsat_covers:
            res["outcome"] = "inconclusive"
            res["why"] = "reachability witness not satisfied (vacuous): " + unsat_covers[0]["desc"][:120] + " @ " + unsat_covers[0]["loc"][:80]
        else:
            res["outcome"] = "pass"
    return res, out


# --------------------------------------------------------------------------------------------
# replay: Kani concrete playback -> native unit test run in dev and release profile
def replay(root, h, logdir, out_dir):
    os.makedirs(out_dir, exist_ok=True)
    tdir = os.path.join(root, "target")
    base = ["cargo", "kani", "-Z", "stubbing", "--features", features_of(h.feat), "--target-dir", tdir, "--harness", h.name] + h.flags
    cmd = base + ["-Z", "concrete-playback", "--concrete-playback=inplace"]
    rc, out, dt, to = run_cmd(cmd, os.path.join(root, "repo"), h.timeout * 2, mem_gb=h.mem_gb, env=kani_env())
    open(os.path.join(logdir, h.name + ".playback-gen.log"), "w").write(out)
    src = os.path.join(root, "verifroot", "incrate", h.module + ".rs")
    text = open(src).read()
    tests = re.findall(r"fn (kani_concrete_playback_%s\w*)\s*\(" % re.escape(h.name), text)
    info = {"generated_tests": tests}
    if not tests:
        info["reproduced"] = None
        info["note"] = "Kani produced no concrete playback test (non-assertion failure class?)"
        return info
    shutil.copy(src, os.path.join(out_dir, h.module + ".playback.rs"))
    results = {}
    for profile in ("dev", "release"):
        cmd = ["cargo", "kani", "playback", "-Z", "concrete-playback", "--features", features_of(h.feat)]
        if profile == "release":
            cmd += ["--release"]
        cmd += ["--", "kani_concrete_playback_" + h.name]  # prefix filter: every generated test of this harness
        e = kani_env()
        e["CARGO_TARGET_DIR"] = os.path.join(root, "target-playback")
        rc, out, dt, to = run_cmd(cmd, os.path.join(root, "repo"), 420, env=e)
        open(os.path.join(logdir, f"{h.name}.playback-{profile}.log"), "w").write(out)
        open(os.path.join(out_dir, f"playback-{profile}.log"), "w").write(out[-20000:])
        ran = re.search(r"test result: (\w+)\. (\d+) passed; (\d+) failed", out)
        if to or not ran:
            results[profile] = "error"
        else:
            results[profile] = "failed" if int(ran.group(3)) > 0 else "passed"
    info["native"] = results
    if all(v == "error" for v in results.values()):
        info["reproduced"] = None
        info["note"] = "native playback could not be built/run"
    else:
        info["reproduced"] = any(v == "failed" for v in results.values())
    return info


# --------------------------------------------------------------------------------------------
def load_known(prop):
    known, fixed = [], []
    p = os.path.join(VERIF, "known_findings.txt")
    if os.path.exists(p):
        for line in open(p):
            line = line.strip()
            if not line or line.startswith("#"):
                continue
            if line.startswith("finding:"):
                kv = dict(x.split("=", 1) for x in line[len("finding:"):].split("::")[0].split() if "=" in x)
                if kv.get("property") == prop:
                    kv["text"] = line.split("::", 1)[1].strip() if "::" in line else ""
                    known.append(kv)
            elif line.startswith("fixed:"):
                fixed.append(line)
    return known, fixed


def main(prop, tier, seed, extra=None):
    """extra: optional callable(root, ctx) -> list of result dicts for non-Kani engines."""
    t0 = time.time()
    logdir = os.path.join(OUT, "logs", f"{prop}-{tier}")
    shutil.rmtree(logdir, ignore_errors=True)
    os.makedirs(logdir)
    # tier=parked: harnesses measured as undecidable within reach (kept as documentation, never run)
    harnesses = [h for h in scan_harnesses(prop) if h.tier != "parked" and (tier == "thorough" or h.tier == "quick")]
    only = os.environ.get("VERIF_ONLY")  # development aid: run the harnesses whose name matches, parked ones included
    if only:
        harnesses = [h for h in scan_harnesses(prop) if re.search(only, h.name)]
    ev = {"property_id": prop, "tier": tier, "seed": seed, "level": "model_checking", "violations": 0}
    results = []
    root = None
    roots = {}
    status = 0
    notes = []
    try:
        miss = hook_check()
        if miss:
            notes.append("hooks missing in working tree: " + ",".join(miss))
            raise RuntimeError("hooks missing: " + ",".join(miss))
        caps = sorted(set((h.cap, h.feat) for h in harnesses), key=lambda c: (c[0] is not None, c[0] or 0, c[1] or ""))
        roots = {}
        build_ok = True
        for c in caps:
            roots[c] = stage(prop, tier, seed, c[0], c[1])
            ok, out, bdt = build(roots[c], os.path.join(logdir, f"build{'' if c[0] is None else '-cap%d' % c[0]}{'' if not c[1] else '-' + c[1]}.log"), c[1])
            if not ok:
                build_ok = False
                notes.append("build failed (see logs): " + "\n".join(out.splitlines()[-15:]))
                errs = re.findall(r"^error(?:\[E\d+\])?:.*?(?=^\S|\Z)", out, flags=re.M | re.S)
                log("INCONCLUSIVE build of staged tree failed:\n" + "\n".join(e.rstrip()[:1500] for e in errs[:6]))
                status = 2
        root = roots[caps[0]] if caps else None
        if build_ok and harnesses:
            workers = int(os.environ.get("VERIF_JOBS", "8" if tier == "quick" else "6"))
            # heavy harnesses first
            hs = sorted(harnesses, key=lambda h: -h.timeout * h.weight)
            with cf.ThreadPoolExecutor(max_workers=workers) as ex:
                futs = {ex.submit(run_harness, roots[(h.cap, h.feat)], h, logdir): h for h in hs}
                for f in cf.as_completed(futs):
                    h = futs[f]
                    res, out = f.result()
                    results.append(res)
                    log(f"[{prop}] {h.name}: {res['outcome']} ({res['wall_s']}s)" + (f" -- {res.get('why','')}" if res["outcome"] != "pass" else ""))
            known, _fixed = load_known(prop)
            for res in sorted(results, key=lambda r: r["harness"]):
                if res["outcome"] == "fail":
                    h = next(x for x in harnesses if x.name == res["harness"])
                    k = next((k for k in known if k.get("harness") == h.name), None)
                    rdir = os.path.join(OUT, "replay", "generated", h.name)
                    info = replay(roots[(h.cap, h.feat)], h, logdir, rdir)
                    if "native" in h.meta:
                        # harness-specific native reproducer against the real build (real threads / real crates):
                        # the violation is only reported when the real crate shows the wrong behaviour
                        binname, _, pat = h.meta["native"].partition(":")
                        rc, nout, ndt, nto = run_cmd([os.path.join(VERIF, "replay", "native", "run.sh"), binname], VERIF, 900,
                                                     env=dict(os.environ, VERIF_REPO=REPO, VERIF_SCRATCH=SCRATCH_ROOT))
                        os.makedirs(rdir, exist_ok=True)
                        open(os.path.join(rdir, "native-" + binname + ".log"), "w").write(nout[-20000:])
                        hit = re.search(pat.replace("+", " "), nout) is not None if pat else rc != 0
                        info["native_reproducer"] = {"bin": binname, "rc": rc, "reproduced": hit}
                        info["reproduced"] = hit
                    res["replay"] = info
                    if info.get("reproduced") is False and res.get("mem_only"):
                        info["note"] = ("failure class is a CBMC memory-model check (leak / double free / dealloc layout / invalid pointer): "
                                        "not observable as a failing native test without an accounting allocator; reported on the solver's verdict, "
                                        "the playback test reproduces the input that drives the code there")
                    elif info.get("reproduced") is False:
                        res["outcome"] = "inconclusive"
                        res["why"] = "counterexample did not reproduce natively: " + res.get("why", "")
                        status = max(status, 2)
                        log(f"INCONCLUSIVE {h.name}: solver counterexample did not reproduce on the native build")
                        continue
                    if k is not None:
                        res["known_finding"] = True
                        log(f"KNOWN-FINDING: property={prop} {k.get('text') or h.role} (harness {h.name})")
                        continue
                    status = 1
                    ev["violations"] += 1
                    rp = os.path.join(rdir, h.module + ".playback.rs")
                    if not os.path.exists(rp):
                        os.makedirs(rdir, exist_ok=True)
                        rp = os.path.join(rdir, "failure.txt")
                        open(rp, "w").write(json.dumps(res, indent=1))
                    log(f"VIOLATION property={prop} replay={rp}")
                    log(f"  harness={h.name} role={h.role}: {res.get('why','')}")
                elif res["outcome"] == "inconclusive":
                    status = max(status, 2)
                    log(f"INCONCLUSIVE {res['harness']}: {res.get('why','')}")
            # a known finding whose harness now passes is simply not printed (nothing suppressed)
        if extra is not None:
            for r in extra(root, {"tier": tier, "seed": seed, "logdir": logdir}):
                results.append(r)
                if r.get("outcome") == "fail":
                    ev["violations"] += 1
                    rdir = os.path.join(OUT, "replay", "generated", re.sub(r"[^A-Za-z0-9_.-]", "_", r.get("query", "e2")))
                    os.makedirs(rdir, exist_ok=True)
                    rp = os.path.join(rdir, "counterexample.json")
                    open(rp, "w").write(json.dumps(r, indent=1))
                    log(f"VIOLATION property={prop} replay={rp}")
                    log(f"  query={r.get('query')}: {r.get('why','')} {json.dumps(r.get('native_replay', ''))[:300]}")
                elif r.get("outcome") == "inconclusive":
                    status = max(status, 2)
                    log(f"INCONCLUSIVE {r.get('query')}: {r.get('why','')}")
    except Exception as e:  # machinery failure is never a pass
        notes.append("machinery error: %r" % (e,))
        log("INCONCLUSIVE machinery error: %r" % (e,))
        status = max(status, 2)
    finally:
        if not os.environ.get("VERIF_KEEP"):
            for r_ in (roots or {}).values():
                shutil.rmtree(r_, ignore_errors=True)
    if ev["violations"] > 0:
        status = 1
    return finish(prop, tier, seed, ev, results, notes, status, t0)


def finish(prop, tier, seed, ev, results, notes, status, t0):
    kres = [r for r in results if "harness" in r]
    n_checks = sum(r.get("n_checks", 0) for r in kres)
    reach = sum(r.get("reachable_checks", 0) for r in kres)
    fns = sorted(set(f for r in kres for f in r.get("repo_functions", [])) |
                 set("E2(MIR): " + f for r in results if "harness" not in r for f in r.get("functions", [])))
    samples = []
    for r in sorted(results, key=lambda r: r.get("harness", r.get("query", ""))):
        s = {k: r[k] for k in ("harness", "query", "role", "outcome", "wall_s", "why", "bounds", "engine", "known_finding") if k in r}
        if "stats" in r:
            s["stats"] = r["stats"]
        if "covers" in r:
            s["witnesses"] = r["covers"]
        if "replay" in r:
            s["replay"] = r["replay"]
        samples.append(s)
    meta = META.get(prop, {})
    extra_eval = sum(r.get("evaluations", 0) for r in results if "harness" not in r)
    extra_dn = sum(r.get("distinct_nontrivial", 0) for r in results if "harness" not in r)
    cov = {
        "evaluations": n_checks + extra_eval,
        "distinct_nontrivial": reach + extra_dn,
        "rule": "one evaluation = one solver-decided obligation: a CBMC property (assertion, pointer/"
                "arithmetic/memory-safety check, unwinding assertion, cover witness) of a Kani proof harness over "
                "the compiled crate, or one SMT query of the MIR encoder; each is decided for ALL values of the "
                "harness's symbolic inputs inside its bound. distinct_nontrivial counts obligations that CBMC reports "
                "reachable (not UNREACHABLE), keyed by (harness, check id), plus SMT queries whose negation twin is sat.",
        "samples": samples,
        "harnesses": len(kres),
        "harnesses_passed": sum(1 for r in results if r.get("outcome") == "pass"),
        "harnesses_inconclusive": sum(1 for r in results if r.get("outcome") == "inconclusive"),
        "harnesses_failed": sum(1 for r in results if r.get("outcome") == "fail"),
        "functions_encoded": fns,
        "solver_time_s": round(sum(r.get("stats", {}).get("solver_s", 0) for r in results), 2),
        "symex_time_s": round(sum(r.get("stats", {}).get("symex_s", 0) for r in results), 2),
        "bounds": meta.get("bounds", ""),
        "outside_bounds": meta.get("outside", ""),
        "explanation": "bounded model checking (Kani 0.68 / CBMC 6.11, CaDiCaL) of the real crate staged from /repo's working tree; "
                       "verdicts are the solver's, over all inputs inside the stated bounds; nothing is claimed outside them.",
        "exhaustive": False,
        "notes": notes,
        "exit_status": status,
    }
    ev["coverage"] = cov
    ev["assumptions"] = meta.get("assumptions", [])
    ev["wall_s"] = round(time.time() - t0, 2)
    os.makedirs(os.path.join(OUT, "evidence"), exist_ok=True)
    if cov["evaluations"] < 1 or cov["distinct_nontrivial"] < 2:
        # nothing was decided (machinery failure): say so instead of inventing counts
        ev["level"] = "other"
        cov["explanation"] = "THIS RUN DECIDED NOTHING (machinery failure, see notes); no property is claimed to hold. " + cov["explanation"]
    with open(os.path.join(OUT, "evidence", prop + ".json"), "w") as f:
        json.dump(ev, f, indent=1)
    log(f"[{prop}] tier={tier} harnesses={len(results)} pass={cov['harnesses_passed']} fail={cov['harnesses_failed']} "
        f"inconclusive={cov['harnesses_inconclusive']} wall={ev['wall_s']}s exit={status}")
    return status


# per-property static text for evidence (bounds, assumptions); filled by props.py
META = {}
