"""Per-property wiring: which engines run, static evidence text (bounds, assumptions)."""
import kanirun

COMMON_ASSUME = [
    "Kani 0.68 / CBMC 6.11 / CaDiCaL are sound for the checks they report (rustc MIR -> goto translation included)",
    "model crates substituted via [patch.crates-io]: ahash (loop-free seeded hasher), log (empty macros), parking_lot, crossbeam-channel, once_cell (sequential models with ghost state), notify (type shells)",
    "std::collections::{HashMap,HashSet} replaced under cfg(kani) by a fixed-capacity slot-array model whose lookups require hash equality AND key equality and whose inserts may relocate entries",
    "sequential execution (Kani has no threads); panic = abort (no unwinding)",
]

kanirun.META.update({
    "C18": {
        "bounds": "all 64-bit ids; sequences of <= 4 operations on one AtomicReloadId; interleavings (E2): <= 3 threads, one atomic access each",
        "outside": "more than 3 concurrent callers; longer operation sequences; weak-memory effects across different locations (single-location coherence makes SC exact here)",
        "assumptions": COMMON_ASSUME[:1] + ["sequential semantics of core::sync::atomic as modelled by Kani"],
    },
})


kanirun.DIRS.update({
    "C05": ["graph", "C05"],
    "C06": ["graph", "C07", "C06"],
    "C08": ["graph", "proto", "proto_std", "C08"],
    "C01": ["map", "C01"],
    "C02": ["map", "C02"],
    "C13": ["map", "C07", "C13"],
    "C07": ["proto", "C07"],
    "C09": ["C10", "proto", "C14", "C09"],
    "C14": ["C14"],
    "C15": ["proto", "C15"],
})


def run(prop, tier, seed):
    extra = EXTRA.get(prop)
    return kanirun.main(prop, tier, seed, extra=extra)


def _e2(prop):
    def f(root, ctx):
        import sys, os
        sys.path.insert(0, os.path.join(kanirun.VERIF, "engines", "mir2smt"))
        import e2checks
        return e2checks.run(prop, ctx, kanirun.log)
    return f


EXTRA = {"C18": _e2("C18"), "C16": _e2("C16"), "C06": _e2("C06"), "C03": _e2("C03"), "C02": _e2("C02"), "C01": _e2("C01"), "C09": _e2("C09"), "C10": _e2("C10"), "C08": _e2("C08"), "C15": _e2("C15"), "C07": _e2("C07")}

kanirun.META["C16"] = {
    "bounds": "E1: every constructor path for each concrete length 0,1,3 (quick) / 8 (thorough) with fully symbolic contents, 3 handles dropped in every order; from_utf8 for ALL byte strings of each length 0..4; Eq/Ord/Hash for pairs of lengths (1,2),(2,2) (quick) / (3,3) (thorough), symbolic hash seed; E2: 2 (quick) / 3 (thorough) threads each [clone; read; drop;] read; drop, symbolic capacity, all interleavings",
    "outside": "longer buffers; serde visitors (feature off in the verified build); weak-memory executions beyond the Release/Acquire rule",
    "assumptions": COMMON_ASSUME[:2] + ["CBMC's allocator model (malloc never fails, dealloc layout check via Kani's __rust_dealloc model) stands for the real allocator"],
}

kanirun.META["C06"] = {
    "bounds": "entry level: one dynamic entry holding (u64,u64), all sequences of <= 5 operations from {write, watcher1.reloaded, watcher2.reloaded, reloaded_global (typed/untyped), fresh watcher}, all 64-bit values; write section: snapshots at lock acquire/release; graph: one asset visited twice at model capacity 1; E2: 1 watcher x 2 polls vs 1 increment (quick), 2 polls vs 2 and 3 polls vs 1 (thorough), all interleavings; E2: run_update from MIR (n <= 3 / 6 affected assets, every reload outcome); E2: reloaded_global, 2 / 3 polling threads against one reload (Atomic<bool> events)",
    "outside": "edits never notified on a real filesystem; diamonds and two notified files on real graphs, run_update (parked: undecidable within reach); more than 2 watchers",
    "assumptions": COMMON_ASSUME,
}

kanirun.META["C07"] = {
    "bounds": "one dynamic entry, value types (u64,u64) and a drop-tracked value; every guard shape (plain, map, try_map Ok/Err, downcast Ok/Err, two guards); one write; all 64-bit contents",
    "outside": "the std RwLock build (feature parking_lot off); real preemption and the hardware memory model (reader/writer exclusion of the lock is trusted); local-mode clause (d) is decided in the C08 protocol harness",
    "assumptions": COMMON_ASSUME + ["parking_lot::RwLock provides reader/writer exclusion (trusted); the model reports would-block instead of blocking"],
}

kanirun.META["C13"] = {
    "bounds": "entry level: value types ZST, u8, Box<u8>, #[repr(align(32))], (u64,u64), drop-tracked value; static and dynamic entries; life cycles create -> [<= 2 reloads] -> drop | into_inner; "
              "8 (stored type, requested type) pairs; map level: see C02 bounds",
    "outside": "reload racing a reader (C07 covers the lock discipline); the real allocator (CBMC's allocation model is the oracle); value types beyond the menu",
    "assumptions": COMMON_ASSUME,
}

kanirun.META["C10"] = {
    "bounds": "entry level: reloadable / opted-out / built-in Storable types x mutable in {true,false}, Arc and OnceInitCell wrappers; cache level (single shard, model capacity 1, thread-less reloader): what a failing load and get_or_insert send to the reloader; a get_or_insert value sits in a non-rewritable entry; E2 (MIR -> SMT): control flow of AnyCache::reload_untyped with every callee outcome symbolic (entry found or not, hot-reloaded or not, reloader present or not, load Ok or Err)",
    "outside": "histories through a successful load / load_owned / reload_untyped (parked: out of memory at 32 GB); sources that fail configure_hot_reloading at run time; filesystem source",
    "assumptions": COMMON_ASSUME,
}
kanirun.META["C17"] = {
    "bounds": "all sequences of <= 3 calls from {get, get_or_try_init(Ok|Err, seed mutated or not), get_or_init}; seed/value types (Tk,Box<u8>) [drop path] and u8 [no-drop path]; all u8 payloads",
    "outside": "panicking initialisers and destructors (Kani has no unwinding); the internals of the real once_cell (its serialisation contract is trusted, so racing callers = call orders)",
    "assumptions": COMMON_ASSUME + ["once_cell::sync::OnceCell serialises initialisers and publishes the value with release/acquire (trusted contract)"],
}
kanirun.META["C03"] = {
    "bounds": "ErrorKind::or: all 4x4 kind pairs, folds over <= 3 extensions; load_from_source: extension lists of length 0..3, each extension absent/unreadable/undecodable/decodable, content <= 2 bytes, with and without default_value; FileContent: all three variants; E2 (MIR -> SMT): the extension loop of load_from_source with ErrorKind::or inlined, n <= 3 (quick) / 8 (thorough) declared extensions, every Ok / Io / Conversion outcome per extension, io::ErrorKind an arbitrary 64-bit value",
    "outside": "the body of the load_with_ext closure in the E2 query (environment: returns Ok, Err(Io) or Err(Conversion)); shipped serde/image/sound loaders; large files; whitespace trimming beyond the stated content bound; cache-level compounds beyond depth 2",
    "assumptions": COMMON_ASSUME,
}

kanirun.META["C05"] = {
    "bounds": "graph kernel: 3 asset keys + 2 file keys, 1-byte ids, all sequences of 2-3 (quick) / 4 (thorough) insert_asset calls with all acyclic dependency masks (incl. rewiring), all changed-file sets incl. a duplicate notification; scenario level: see harness list",
    "outside": "enhance_hot_reloading mode beyond the scenario harness; filesystem source/watcher; DAGs with more than 3 assets; real hashbrown (model map)",
    "assumptions": COMMON_ASSUME,
}
kanirun.META["C08"] = {
    "map_cap": {"quick": 2, "thorough": 3},
    "bounds": "answer protocol: symbolic tokens and slot contents (all usize / Option<usize>), one critical section or one reload() call per harness; reloader thread: one pass from a concrete channel state; graph: an asset that looks itself up (model table capacity 1, recursion bound 3 frames)",
    "outside": "std locks; OS scheduling fairness; event bursts; cycles of 2-3 assets and multi-caller schedules (parked: undecidable within reach); composition of the one-step obligations into deadlock freedom is a pen-and-paper monitor argument",
    "assumptions": COMMON_ASSUME + ["parking_lot::Condvar has no spurious wake-ups (documented) and wakes every waiter on notify_all; weak fairness of the scheduler"],
}

kanirun.META["C15"] = {
    "bounds": "one cache; scenarios: dropped while idle / right after a hot_reload, event sender kept by the source or dropped with it, <= 2 queued events for unknown entries; <= 4 scheduler actions; the reloader may wake at most 2 times in a row without consuming a message",
    "outside": "the notify watcher thread and OS-level CPU accounting (used only in the native replay); more than one cache per process",
    "assumptions": COMMON_ASSUME + ["crossbeam Select::ready returns when an operation is ready OR its channel is disconnected (documented); fair choice among several ready operations"],
}

kanirun.META["C14"] = {
    "bounds": "kernel: two reloader identities, every nesting of depth 3 over {record(r1), record(r2), no_record}, five reads each issued by either reloader (2^5 x 3^3 programs); file / directory / asset record kinds; cache level: see harness list",
    "outside": "helper threads (the thread-local is a plain static in Kani: 'another thread' = 'no active record'); panics (no unwinding in Kani); nesting deeper than 3",
    "assumptions": COMMON_ASSUME,
}

kanirun.META["C01"] = {
    "bounds": "map level: one shard, ids {a,b}, <= 3 insertions incl. a same-key race (device S3: the racing thread's whole operation runs at the only unlocked point), adversarial relocation of table entries on every insert, all 64-bit values; shard selection: symbolic seed (see harness list); E2 (MIR -> SMT): AssetMap::new + get_shard + get_shard_mut, available_parallelism = any p in 1..=2^20 or an error, any 64-bit key hash: the &self and &mut self paths pick the same in-range shard and never panic",
    "outside": "real hashbrown (model table), more than 2 racers, std locks, ahash-off build, real scheduling; load-level races (cache-level harnesses are thorough-only)",
    "assumptions": COMMON_ASSUME,
}
kanirun.META["C02"] = {
    "bounds": "map level: sharded and local map, ids {a,b}, one stored type plus one foreign type, scripts of <= 4 operations from {insert, get, contains, take, remove, clear} with a solver-chosen branch, all 64-bit values; E2 (MIR -> SMT): AssetMap::new + get_shard + get_shard_mut, available_parallelism = any p in 1..=2^20 or an error, any 64-bit key hash: the &self and &mut self paths pick the same in-range shard and never panic",
    "outside": "longer sequences, larger alphabets, directory loads (C11), load / load_owned through a Source (thorough only)",
    "assumptions": COMMON_ASSUME,
}
kanirun.META["C09"] = {
    "bounds": "a failing Compound::load on a cache with a reloader: error returned, nothing cached, nothing registered with the reloader; recording cell restored (C14 kernel); the reloader still answers after processing (thorough); E2 (MIR -> SMT): control flow of AnyCache::reload_untyped with every callee outcome symbolic (entry found or not, hot-reloaded or not, reloader present or not, load Ok or Err); E2: run_update from MIR (n <= 3 / 6 affected assets, every reload outcome: all are reloaded once, in order); E2: the extension loop of load_from_source (n <= 3) for the error a failing load reports",
    "outside": "panics (Kani has no unwinding: CellGuard on unwind, poison-ignoring locks); io::Error kinds through load_from_source (thorough only)",
    "assumptions": COMMON_ASSUME,
}

kanirun.META["C11"] = {
    "bounds": "Directory<T>::load on one directory whose listing is any sequence of <= 3 entries from a 6-entry menu (matching file, second match, same stem with another extension, foreign extension, sub-directory, duplicate report); T with one extension, two extensions, and Arc<T>; missing directory",
    "outside": "RecursiveDirectory, iter / iter_cached (they go through cache.load: undecidable within reach, see DESIGN); every non-memory source kind (C04); larger listings",
    "assumptions": COMMON_ASSUME,
}
