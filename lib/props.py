"""Per-property wiring: which engines run, static evidence text (bounds, assumptions)."""
import kanirun

COMMON_ASSUME = [
    "Kani 0.68 / CBMC 6.11 / CaDiCaL are sound for the checks they report (rustc MIR -> goto translation included)",
    "model crates substituted via [patch.crates-io]: ahash (loop-free seeded hasher), log (empty macros), parking_lot, crossbeam-channel, once_cell (sequential models with ghost state), notify (type shells)",
    "std::collections::{HashMap,HashSet} replaced under cfg(kani) by a fixed-capacity slot-array model whose lookups require hash equality AND key equality and whose inserts may relocate entries",
    "sequential execution (Kani has no threads); panic = abort (no unwinding)",
]

kanirun.META.update({
    "C18": {
        "bounds": "all 64-bit ids; sequences of <= 4 operations on one AtomicReloadId; interleavings (E2): <= 3 threads, one atomic access each",
        "outside": "more than 3 concurrent callers; longer operation sequences; weak-memory effects across different locations (single-location coherence makes SC exact here)",
        "assumptions": COMMON_ASSUME[:1] + ["sequential semantics of core::sync::atomic as modelled by Kani"],
    },
})


def run(prop, tier, seed):
    extra = EXTRA.get(prop)
    return kanirun.main(prop, tier, seed, extra=extra)


EXTRA = {}
