#!/bin/bash
# usage: seedrun.sh <patch.diff> <PROP> [<PROP>...]  — runs the quick checks against a copy of /repo with the patch applied
P=$1; shift
N=$(echo "$P" | md5sum | cut -c1-8)
S=/var/tmp/verif-scratch/seedrun-$N
rm -rf $S; mkdir -p $S/out
rsync -a --exclude target --exclude .git /repo/ $S/repo/
(cd $S/repo && patch -p1 -s < "$P") || { echo "PATCH DID NOT APPLY: $P"; rm -rf $S; exit 3; }
for prop in "$@"; do
  VERIF_REPO=$S/repo VERIF_SCRATCH=$S/scratch VERIF_OUT=$S/out VERIF_TIER=${VERIF_TIER:-quick} /verif/check $prop > $S/out/$prop.log 2>&1
  rc=$?
  echo "== $P :: $prop -> exit $rc"
  grep -E "^VIOLATION|^  harness=|^  query=|^INCONCLUSIVE|^KNOWN" $S/out/$prop.log | cut -c1-260 | head -8
done
rm -rf $S
