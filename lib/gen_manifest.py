#!/usr/bin/env python3
"""Regenerates MANIFEST.json from the table below (single source of truth for the interface)."""
import json, os, subprocess
V = os.path.dirname(os.path.dirname(os.path.abspath(__file__)))
props = [json.loads(l) for l in open(os.path.join(V, "properties.jsonl"))]

TECH = "solver-based bounded model checking of the real code: Kani 0.68 / CBMC 6.11 (CaDiCaL) over in-crate proof harnesses"
TECH2 = TECH + " + MIR->SMT-LIB interleaving encoder decided by z3 and cvc5"
TECH3 = TECH + " + symbolic execution of the function's MIR into SMT-LIB (sequential kernel, callees as nondeterministic environment), decided by z3 and cvc5, counterexamples replayed natively"

CLAIMS = {
 "C01": ("model_checking", TECH3, "map level: first-writer-wins under a same-key insertion race (device S3), the racers share one handle, the winner stays readable, keys are (id, type); handles survive unrelated inserts with adversarial relocation of table entries (thorough); a look-up under a concurrent writer waits and never answers absent; shard selection of the real constructor: every CPU count up to 2^20 and every hash routes &self and &mut self accesses to the same in-range shard (E2)",
         "model table instead of hashbrown; one shard in the Kani harnesses; load-level races out of reach (DESIGN.md §6 C01)"),
 "C02": ("model_checking", TECH3, "map level for the sharded and the single-threaded map: get/insert/contains/take/remove/clear delete and return exactly what they name, a foreign id or type touches nothing, everything is dropped exactly once; cache front-ends with and without reloader find what get_or_insert stored; shard selection of the real constructor (E2)",
         "model table instead of hashbrown; sequences <= 4 operations; load / load_owned / directory loads through a Source are out of reach"),
 "C03": ("model_checking", TECH3, "ErrorKind::or for all kind pairs and folds over <= 3 extensions; Error id/reason chain; FileContent::with_cow over all three representations; From conversions; the extension loop of load_from_source for n <= 3 (quick) / 8 (thorough) extensions and every outcome per extension (E2: first usable extension in order, otherwise default_value with an error of maximal rank)",
         "Kani/CBMC; model crates; std io::Error / Box<dyn Error> values forgotten (mem::forget) in harnesses; in the E2 kernel the load_with_ext closure is the environment; shipped loaders out of scope"),
 "C06": ("model_checking", TECH2, "entry-level reload-id/watcher/global-flag bookkeeping for all sequences of <= 5 operations; update-list precision on the dependency graph kernel (thorough); watcher/increment interleavings and reloaded_global pollers against one reload (E2); one reloader pass reloads every affected asset exactly once, in order (E2 run_update kernel); Local/Static mode switch of the reloader: which entry point runs a pass in which mode and on which cache, the pass at enhance_hot_reloading consumes the pending set (E2 mode-switch kernel, run_update inlined); the reloader thread calls an update entry point only as the handler of a message it received, for every script of <= 4 (quick) / 6 (thorough) channel interactions (E2 thread-loop kernel)",
         "Kani/CBMC; model crates; single-location atomics are coherent so SC interleavings are exact"),
 "C07": ("model_checking", TECH3, "lock discipline of read guards (all guard shapes) and of UntypedEntry::write against a ghost-state lock model: value/id/flag change only inside the write section; writer blocks under a live guard; hot_reload blocks until answered; reloader side: while the reloader is in Local mode no entry point but the handling of a hot_reload request runs an update pass (handle_events / update_if_static idle), and the request is answered only after update_if_local returned, for every script of <= 4 (quick) / 6 (thorough) channel interactions (E2 mode-switch and thread-loop kernels)",
         "parking_lot model: reader/writer exclusion trusted; std-lock build not covered"),
 "C08": ("model_checking", TECH3, "monitor discipline of the answer protocol as one-step obligations from symbolic pre-states (who empties/fills the slot must notify; wrong-token callers and a full slot block untouched; tokens unique; reload sends its token then waits), one pass of the real reloader thread, bounded termination of the reverse-dependency visit on look-up cycles; the message loop of hot_reloading_thread against every script of <= 4 (quick) / 6 (thorough) channel interactions in both reloader modes: every Ptr request is followed by update_if_local and Answers::notify with its own token before the next channel access (E2 thread-loop kernel)",
         "parking_lot::Condvar without spurious wake-ups (documented) and weak fairness assumed; the std-lock build is covered for the answer protocol only (std::sync::Condvar::{wait,notify_all} stubbed, spurious/foreign wake-ups allowed); composition of the one-step obligations into deadlock freedom is a pen-and-paper monitor argument (DESIGN.md §5)"),
 "C09": ("model_checking", TECH3, "a Compound::load failing after 0, 1 or 2 source accesses on a cache with a reloader: the error names the id and carries the loader's error, nothing is cached or registered, cached values keep handle and value, the recording cell is restored; hot_reload returns when the reloader is gone; a reload whose load fails writes and reports nothing, and does not keep the rest of the batch stale (E2 kernels reload_untyped, run_update); which error a failing load reports (E2 load loop)",
         "panics are outside (Kani is panic=abort); the failing load and the reload kernel are decided separately, not as one formula"),
 "C10": ("model_checking", TECH3, "entry kind (dynamic iff reloadable type and reloader present); write on static entries refused; get on dynamic entries refused; cache-level histories (see evidence); reload_untyped neither loads nor writes an entry that is not hot-reloaded, whatever its type says (E2)",
         "Kani/CBMC; model crates"),
 "C13": ("model_checking", TECH, "drop-exactly-once ledger + CBMC allocator checks (double free, dealloc layout, leak) over entry life cycles for 5 value layouts; TypeId discipline for 8 type pairs; wrong-type requests panic and never return",
         "CBMC allocation model stands for the real allocator"),
 "C14": ("model_checking", TECH, "attribution rule of records::{record,no_record,add_*} for every nesting of depth 2 (quick) / 3 (thorough) over two reloader identities and every assignment of readers; record kinds file/dir/asset; recording cell restored",
         "thread-local modelled as a static (no helper threads); no unwinding"),
 "C15": ("model_checking", TECH3, "one pass of the real hot_reloading_thread from each channel state: cache dropped with the event sender kept / dropped, idle and alive: it exits or sleeps, never wakes more than twice without consuming a message; the message loop of hot_reloading_thread against every script of <= 4 (quick) / 6 (thorough) channel interactions: Disconnected on either channel ends the thread without another channel access, it blocks in Select::ready before every round and never re-polls an empty channel without blocking, a ready event channel is polled in that round (E2 thread-loop kernel)",
         "channel model: Select::ready returns on ready-or-disconnected (documented crossbeam behaviour), fair choice"),
 "C16": ("model_checking", TECH2, "all contents for every length 0..3 (quick) / ..8 (thorough) through every constructor, every drop order of 3 handles with leak/double-free/layout checks; from_utf8 against an independent UTF-8 automaton for all strings <= 4 bytes; Eq/Ord/Hash agreement",
         "CBMC allocation model; serde visitors not built"),
 "C17": ("model_checking", TECH, "all sequences of <= 3 get/get_or_init/get_or_try_init calls with succeeding/failing/seed-mutating initialisers on both code paths (seed with and without Drop), drop ledger + leak checks",
         "once_cell serialisation contract trusted (model); panics outside (no unwinding in Kani)"),
 "C18": ("model_checking", TECH2, "ReloadId::update / AtomicReloadId for all 64-bit ids, sequences <= 4; 2-3 thread interleavings of the atomic accesses extracted from MIR",
         "Kani's sequential atomics; SC exact for one location"),
}
NA = {
 "C05": "not applicable within reach of solver-based checking: convergence needs load + DepsGraph::insert + reload_untyped in one formula; measured: DepsGraph::insert with one dependency = 740k program steps / no verdict, every harness through a successful load or reload_untyped and every graph harness with >= 2 asset nodes ran out of memory at 32 GB after 40-120 min (TypeId-keyed lookups never constant-fold); the decidable pieces are claimed under C06/C07/C08/C10/C14 (DESIGN.md §6 C05)",
 "C11": "not applicable within reach of solver-based checking: Directory::load / select_ids go through AnyCache's virtual source (dyn Cache) and Vec<SharedString> sort+dedup; measured: no verdict in 10-15 min for listings of 2 entries, iter/iter_cached additionally need cache.load (out of memory); harnesses kept parked in incrate/C11 (DESIGN.md §6 C11)",
 "C04": "not applicable to solver-based checking of this code: FileSystem = OS syscalls, Zip/Tar = third-party parsers with CRC/inflate/checksum loops, Embedded tables come from a compile-time proc-macro, and all path->id logic runs through std::path which CBMC does not get through even for concrete inputs (DESIGN.md §6 C04)",
 "C12": "not applicable to solver-based checking of this code: id_of_path / path_of_entry / the notify handler are compositions of std::path, OsStr and Path::is_dir (syscall); measured: concrete round trip does not leave CBMC symex in 7 min (DESIGN.md §6 C12)",
}
PENDING = "check under construction in this session (DESIGN.md §6); not claimed yet"

def main():
    hooks_commits = subprocess.run(["git", "-C", "/repo", "log", "--format=%h %s"], capture_output=True, text=True).stdout.splitlines()
    hook_ids = [l.split()[0] for l in hooks_commits if "verif hook" in l]
    fix_ids = [l.split()[0] for l in hooks_commits if " fix:" in l]
    man = {
        "version": 1,
        "setup_cmd": "true",
        "hooks": {
            "guard": "cfg(kani)",
            "enable": "checks stage a copy of /repo's working tree and build it with `cargo kani` (which sets --cfg kani); env ASSETS_MANAGER_VERIF points the guarded include!() hooks at harness sources generated from /verif/incrate; model crates come in through [patch.crates-io] in the staged copy only",
            "baseline_off_cmd": "cd /repo && (cargo nextest run --workspace --no-fail-fast --test-threads 8 --offline || cargo test --workspace --no-fail-fast --offline)",
            "source_commits": hook_ids,
            "add_only": True,
        },
        "engines": [
            {"name": "E1-kani", "path": "lib/kanirun.py", "serves_properties": sorted(CLAIMS), "kind_free_text": "Kani 0.68/CBMC 6.11 bounded model checking of in-crate proof harnesses (incrate/<property>/*.rs) over the real crate staged from /repo; environment model crates (models/) via [patch]; native concrete-playback replay before any VIOLATION"},
            {"name": "E2-mir2smt", "path": "engines/mir2smt", "serves_properties": ["C01", "C02", "C03", "C06", "C07", "C08", "C09", "C10", "C15", "C16", "C18"], "kind_free_text": "own encoder: nightly MIR dump -> SMT-LIB; interleaving queries over the atomics kernels (C06/C16/C18) and sequential kernels (extension loop of load_from_source, shard selection of the map, reload_untyped, run_update, the reloader's mode switch and its thread's message loop), decided by z3 and cvc5 (must agree)"},
        ],
        "checks": [],
        "not_applicable": [],
        "notes": "fix: commits in /repo: " + ", ".join(fix_ids) + ". exit 0 = all harnesses decided and held; 1 = VIOLATION (replayed); 2 = inconclusive (timeout/OOM/unsupported/vacuous/non-reproducing): never reported as success. Known findings: /verif/known_findings.txt.",
    }
    for p in props:
        pid = p["id"]
        if pid in CLAIMS:
            lvl, tech, text, note = CLAIMS[pid]
            man["checks"].append({
                "property_id": pid,
                "quick_cmd": f"./check {pid} --tier quick",
                "thorough_cmd": f"./check {pid} --tier thorough",
                "evidence_file": f"/verif/evidence/{pid}.json",
                "replay_cmd_template": "./replay-trace {path}",
                "engine": "E1-kani+E2-mir2smt" if pid in ("C01", "C02", "C03", "C06", "C07", "C08", "C09", "C10", "C15", "C16", "C18") else "E1-kani",
                "level_claimed": {"category": lvl, "text": text, "design_ref": f"DESIGN.md §6 {pid}"},
                "level_note": note,
                "technique": tech,
            })
        else:
            man["not_applicable"].append({"property_id": pid, "reason": NA.get(pid, PENDING)})
    json.dump(man, open(os.path.join(V, "MANIFEST.json"), "w"), indent=1)

if __name__ == "__main__":
    main()
