#!/bin/bash
# usage: confirm_seed.sh <worktree> <m1|m2> ; prints a JSON-ish summary; exit 0 iff everything confirmed
WT=$1; M=$2; D=$WT/SEED/$M
cd $WT || exit 2
git checkout -q -- . ; git clean -fdq -e SEED -e target
export CARGO_NET_OFFLINE=true
run_demo() {
  if [ -f $D/demo.diff ]; then
    git apply $D/demo.diff || return 99
    t=$(grep -o "mod seed_demo[a-z0-9_]*" $D/demo.diff | head -1 | awk '{print $2}')
    timeout 600 cargo test --offline --features hot-reloading,utils --lib ${t:-seed_demo} >$D/demo.out 2>&1; rc=$?
  else
    f=$(ls $D/demo*.rs | head -1); cp $f examples/seed_demo.rs
    timeout 600 cargo run --offline --release --example seed_demo --features hot-reloading,utils >$D/demo.out 2>&1; rc=$?
  fi
  return $rc
}
# 1. without mutation: demo passes
run_demo; rc_clean=$?
git checkout -q -- . ; git clean -fdq -e SEED -e target
# 2. with mutation
git apply $D/patch.diff || { echo "{\"seed\":\"$WT/$M\",\"apply\":false}"; exit 1; }
cargo build --offline >/dev/null 2>&1; b1=$?
cargo build --offline --features hot-reloading,utils,parking_lot >/dev/null 2>&1; b2=$?
cargo test --workspace --offline >$D/tests1.out 2>&1; t1=$?
cargo test --offline --features hot-reloading --lib >$D/tests2.out 2>&1; t2=$?
run_demo; rc_mut=$?
git checkout -q -- . ; git clean -fdq -e SEED -e target
ok=1; [ $rc_clean -eq 0 ] && [ $rc_mut -ne 0 ] && [ $b1 -eq 0 ] && [ $b2 -eq 0 ] && [ $t1 -eq 0 ] && [ $t2 -eq 0 ] || ok=0
echo "{\"seed\":\"$WT/$M\",\"demo_clean_rc\":$rc_clean,\"demo_mutated_rc\":$rc_mut,\"build\":[$b1,$b2],\"tests\":[$t1,$t2],\"confirmed\":$ok}"
[ $ok -eq 1 ]
