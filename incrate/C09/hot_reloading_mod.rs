// C09 — a failing load is contained: the error names the id, nothing is cached or registered,
// cached values are untouched, dependency recording is back to what it was.
#[cfg(kani)]
mod verif_c09 {
    use super::*;
    use crate::{AnyCache, AssetCache, BoxedError, Compound};

    #[derive(Debug)]
    struct Boom(u8);
    impl fmt::Display for Boom { fn fmt(&self, f: &mut fmt::Formatter<'_>) -> fmt::Result { f.write_str("boom") } }
    impl std::error::Error for Boom {}

    static mut FAIL_AFTER_READS: u8 = 0;
    /// reads two "files" then fails (or fails earlier): a partially executed load
    struct P(u8);
    impl Compound for P {
        fn load(cache: AnyCache, id: &SharedString) -> Result<Self, BoxedError> {
            let n = unsafe { FAIL_AFTER_READS };
            if n == 0 { return Err(Box::new(Boom(0))); }
            let _ = cache.raw_source().read(id, "x");
            if n == 1 { return Err(Box::new(Boom(1))); }
            let _ = cache.raw_source().read_dir(id, &mut |_| ());
            Err(Box::new(Boom(2)))
        }
    }
    struct N(u8);
    impl crate::Storable for N {}

    fn contained(k: u8, with_other: bool) {
        let (r, rx) = HotReloader::verif_with_receiver();
        let cache = AssetCache::verif_new(crate::source::Empty, Some(r));
        let other = if with_other { Some(cache.get_or_insert::<N>("a", N(5))) } else { None };
        unsafe { FAIL_AFTER_READS = k; }
        assert!(records::verif_recording_is_none());
        let res = cache.load::<P>("k");
        match res {
            Ok(_) => assert!(false, "a failing loader produced a cached value"),
            Err(e) => {
                assert!(&**e.id() == "k", "the error does not name the requested id");
                let p = e.reason() as *const dyn std::error::Error as *const u8;
                assert!(unsafe { (*(p as *const Boom)).0 } == k, "the reason is not the loader's error");
                std::mem::forget(e);
            }
        }
        // nothing partially built is visible, nothing was registered with the reloader
        assert!(!cache.contains::<P>("k") && cache.get_cached::<P>("k").is_none());
        assert!(rx.try_recv().is_err(), "a failed load told the reloader about its key");
        // values already cached are untouched (same handle, same value)
        if let Some(other) = other {
            let again = cache.get_cached::<N>("a").unwrap();
            assert!(std::ptr::eq(again, other) && other.read().0 == 5);
        }
        // the calling thread's dependency recording is restored
        assert!(records::verif_recording_is_none(), "the recording cell was not restored after a failing load");
        std::mem::forget((cache, rx));
    }

    // @h name=c09_fail_before_reads tier=quick cap=1 timeout=300
    #[kani::proof]
    #[kani::unwind(6)]
    fn c09_fail_before_reads() { contained(0, false); kani::cover!(true); }
    // @h name=c09_fail_after_file_read tier=quick cap=1 timeout=300
    #[kani::proof]
    #[kani::unwind(6)]
    fn c09_fail_after_file_read() { contained(1, false); kani::cover!(true); }
    // @h name=c09_fail_after_dir_read tier=quick cap=2 timeout=300
    #[kani::proof]
    #[kani::unwind(6)]
    fn c09_fail_after_dir_read() { contained(2, false); kani::cover!(true); }
    // @h name=c09_cached_value_untouched tier=quick cap=2 timeout=600
    #[kani::proof]
    #[kani::unwind(6)]
    fn c09_cached_value_untouched() { contained(0, true); kani::cover!(true); }
}
