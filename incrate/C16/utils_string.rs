// C16 — SharedString: UTF-8 validation, deref, comparisons (E1, Kani).
// Bound: all byte strings of each length 0..=4 (separate concrete-length harnesses).
#[cfg(kani)]
mod verif_c16_string {
    use super::*;

    /// Independent reference: the UTF-8 well-formedness table (Unicode, Table 3-7).
    fn ref_utf8(b: &[u8]) -> bool {
        let n = b.len();
        let mut i = 0;
        while i < n {
            let c = b[i];
            if c < 0x80 { i += 1; continue; }
            let (need, lo, hi) = match c {
                0xC2..=0xDF => (1, 0x80, 0xBF),
                0xE0 => (2, 0xA0, 0xBF),
                0xE1..=0xEC | 0xEE..=0xEF => (2, 0x80, 0xBF),
                0xED => (2, 0x80, 0x9F),
                0xF0 => (3, 0x90, 0xBF),
                0xF1..=0xF3 => (3, 0x80, 0xBF),
                0xF4 => (3, 0x80, 0x8F),
                _ => return false,
            };
            if i + need >= n { return false; }
            if b[i + 1] < lo || b[i + 1] > hi { return false; }
            let mut k = 2;
            while k <= need {
                if b[i + k] < 0x80 || b[i + k] > 0xBF { return false; }
                k += 1;
            }
            i += need + 1;
        }
        true
    }

    fn utf8_case<const N: usize>() -> bool {
        let buf: [u8; N] = kani::any();
        let src = &buf[..];
        let ok = ref_utf8(src);
        match SharedString::from_utf8(SharedBytes::from_slice(src)) {
            Ok(s) => {
                assert!(ok, "invalid UTF-8 accepted");
                assert_eq!(s.len(), N);
                let i: usize = kani::any();
                if i < N { assert_eq!(s.as_bytes()[i], src[i]); }
                let bytes = s.into_bytes();
                assert_eq!(bytes.len(), N);
                std::mem::forget(bytes);
            }
            Err(_) => assert!(!ok, "valid UTF-8 rejected"),
        }
        ok
    }

    // @h name=c16_string_utf8_n0 tier=quick
    #[kani::proof]
    #[kani::unwind(7)]
    fn c16_string_utf8_n0() { let ok = utf8_case::<0>(); kani::cover!(ok); }
    // @h name=c16_string_utf8_n1 tier=quick
    #[kani::proof]
    #[kani::unwind(7)]
    fn c16_string_utf8_n1() { let ok = utf8_case::<1>(); kani::cover!(ok); kani::cover!(!ok); }
    // @h name=c16_string_utf8_n2 tier=quick
    #[kani::proof]
    #[kani::unwind(7)]
    fn c16_string_utf8_n2() { let ok = utf8_case::<2>(); kani::cover!(ok); kani::cover!(!ok); }
    // @h name=c16_string_utf8_n3 tier=quick timeout=900
    #[kani::proof]
    #[kani::unwind(7)]
    fn c16_string_utf8_n3() { let ok = utf8_case::<3>(); kani::cover!(ok); kani::cover!(!ok); }
    // @h name=c16_string_utf8_n4 tier=quick timeout=900
    #[kani::proof]
    #[kani::unwind(7)]
    fn c16_string_utf8_n4() { let ok = utf8_case::<4>(); kani::cover!(ok); kani::cover!(!ok); }

    fn ascii<const N: usize>(buf: &[u8; N]) -> &str {
        let mut i = 0;
        while i < N { kani::assume(buf[i] < 0x80); i += 1; }
        unsafe { std::str::from_utf8_unchecked(&buf[..]) }
    }

    fn ctors_cmp<const N: usize, const M: usize>() {
        use std::hash::{BuildHasher, Hash, Hasher};
        let b1: [u8; N] = kani::any();
        let b2: [u8; M] = kani::any();
        let (s1, s2) = (ascii(&b1), ascii(&b2));
        let which: u8 = kani::any();
        kani::assume(which < 4);
        let x: SharedString = match which {
            0 => SharedString::from(s1),
            1 => SharedString::from(String::from(s1)),
            2 => SharedString::from(Cow::Borrowed(s1)),
            _ => SharedString::from(Cow::<str>::Owned(String::from(s1))),
        };
        let y = SharedString::from(s2);
        assert_eq!(x.len(), N);
        let i: usize = kani::any();
        if i < N { assert_eq!(x.as_bytes()[i], b1[i]); assert_eq!(x.as_str().as_bytes()[i], b1[i]); }
        let r: &[u8] = x.as_ref();
        assert_eq!(r.len(), N);
        assert_eq!(x == y, s1 == s2);
        assert_eq!(x == *s2, s1 == s2);
        assert_eq!(x == s2, s1 == s2);
        assert_eq!(x.cmp(&y), s1.cmp(s2));
        assert_eq!(x.partial_cmp(&y), Some(s1.cmp(s2)));
        assert_eq!(x.partial_cmp(s2), Some(s1.cmp(s2)));
        let seed: u64 = kani::any();
        unsafe { ahash::MODEL_SEED = seed; }
        let st = ahash::RandomState::new();
        let mut h1 = st.build_hasher(); x.hash(&mut h1);
        let mut h2 = st.build_hasher(); s1.hash(&mut h2);
        assert_eq!(h1.finish(), h2.finish());
        let z = x.clone();
        assert!(std::ptr::eq(z.as_ptr(), x.as_ptr()));
        kani::cover!(s1 < s2 && which == 3);
        std::mem::forget((x, y, z));
    }

    // @h name=c16_string_cmp_2_2 tier=quick
    #[kani::proof]
    #[kani::unwind(7)]
    fn c16_string_cmp_2_2() { ctors_cmp::<2, 2>(); }
    // @h name=c16_string_cmp_1_2 tier=quick
    #[kani::proof]
    #[kani::unwind(7)]
    fn c16_string_cmp_1_2() { ctors_cmp::<1, 2>(); }
    // @h name=c16_string_cmp_3_3 tier=thorough
    #[kani::proof]
    #[kani::unwind(7)]
    fn c16_string_cmp_3_3() { ctors_cmp::<3, 3>(); }
}
