// C16 — SharedBytes: constructors, aliasing clones, release exactly once (E1, Kani).
// Bounds: every length 0..=4 (quick) and 5..=8 (thorough) as separate concrete-length
// harnesses with fully symbolic contents; <= 3 handles; every drop order.
#[cfg(kani)]
mod verif_c16_bytes {
    use super::*;

    #[inline(always)]
    fn chk(h: &SharedBytes, expect: &[u8], idx: usize) {
        assert_eq!(h.len(), expect.len());
        if idx < expect.len() {
            assert_eq!(h[idx], expect[idx]);
        }
    }

    /// Drops three handles in a solver-chosen order; after every drop each surviving handle
    /// must still dereference to `expect` (CBMC's pointer checks catch a use after free, its
    /// dealloc checks a double free or a wrong layout, the leak check a missing free).
    fn drop_in_any_order(a: SharedBytes, b: SharedBytes, c: SharedBytes, e: &[u8]) {
        let perm: u8 = kani::any();
        kani::assume(perm < 6);
        let i: usize = kani::any();
        match perm {
            0 => { drop(a); chk(&b, e, i); chk(&c, e, i); drop(b); chk(&c, e, i); drop(c); }
            1 => { drop(a); chk(&b, e, i); chk(&c, e, i); drop(c); chk(&b, e, i); drop(b); }
            2 => { drop(b); chk(&a, e, i); chk(&c, e, i); drop(a); chk(&c, e, i); drop(c); }
            3 => { drop(b); chk(&a, e, i); chk(&c, e, i); drop(c); chk(&a, e, i); drop(a); }
            4 => { drop(c); chk(&a, e, i); chk(&b, e, i); drop(a); chk(&b, e, i); drop(b); }
            _ => { drop(c); chk(&a, e, i); chk(&b, e, i); drop(b); chk(&a, e, i); drop(a); }
        }
        kani::cover!(perm == 5);
    }

    fn check_content(s: &SharedBytes, expect: &[u8]) {
        let i: usize = kani::any();
        chk(s, expect, i);
        if i < expect.len() {
            assert_eq!(s.as_ref()[i], expect[i]);
            let b: &[u8] = std::borrow::Borrow::borrow(s);
            assert_eq!(b[i], expect[i]);
        }
    }

    fn slice_case<const N: usize>() {
        let buf: [u8; N] = kani::any();
        let src = &buf[..];
        let a = SharedBytes::from_slice(src);
        check_content(&a, src);
        // the buffer is a private copy: not aliased with the source
        assert!(N == 0 || a.as_ptr() != src.as_ptr());
        let b = a.clone();
        let c = SharedBytes::from(&b);
        assert!(std::ptr::eq(a.as_ptr(), b.as_ptr()) && std::ptr::eq(a.as_ptr(), c.as_ptr()));
        assert_eq!(a.inner().count.load(Ordering::Relaxed), 3);
        drop_in_any_order(a, b, c, src);
    }

    fn vec_of<const N: usize>(buf: &[u8; N], extra: usize) -> Vec<u8> {
        let mut v = Vec::with_capacity(N + extra);
        v.extend_from_slice(buf);
        v
    }

    fn vec_case<const N: usize>() {
        let buf: [u8; N] = kani::any();
        // capacity == len, excess capacity, or (N == 0 only) the zero-capacity Vec
        let shape: u8 = kani::any();
        kani::assume(shape < 3);
        let v = match shape {
            0 => vec_of(&buf, 0),
            1 => vec_of(&buf, 3),
            _ => { kani::assume(N == 0); Vec::new() }
        };
        let p = v.as_ptr();
        let cap = v.capacity();
        let a = SharedBytes::from_vec(v);
        check_content(&a, &buf[..]);
        // from_vec takes the allocation over (no copy) when there is one
        assert!(cap == 0 || a.as_ptr() == p);
        let b = a.clone();
        let c = b.clone();
        kani::cover!(shape == 1);
        drop_in_any_order(a, b, c, &buf[..]);
    }

    fn other_ctors<const N: usize>() {
        let buf: [u8; N] = kani::any();
        let src = &buf[..];
        let which: u8 = kani::any();
        kani::assume(which < 6);
        let s: SharedBytes = match which {
            0 => SharedBytes::from(src),
            1 => SharedBytes::from(vec_of(&buf, 0)),
            2 => SharedBytes::from(vec_of(&buf, 1).into_boxed_slice()),
            3 => SharedBytes::from(Cow::Borrowed(src)),
            4 => SharedBytes::from(Cow::<[u8]>::Owned(vec_of(&buf, 2))),
            _ => src.iter().copied().collect::<SharedBytes>(),
        };
        check_content(&s, src);
        kani::cover!(which == 2);
        kani::cover!(which == 5);
        let t = s.clone();
        drop(s);
        check_content(&t, src);
    }

    macro_rules! leak_harness {
        ($name:ident, $body:expr) => {
            #[kani::proof]
            #[kani::unwind(12)]
            fn $name() { $body }
        };
    }

    // @h name=c16_bytes_slice_n0 tier=quick flags=-Z+unstable-options+--cbmc-args+--memory-leak-check
    leak_harness!(c16_bytes_slice_n0, slice_case::<0>());
    // @h name=c16_bytes_slice_n1 tier=quick flags=-Z+unstable-options+--cbmc-args+--memory-leak-check
    leak_harness!(c16_bytes_slice_n1, slice_case::<1>());
    // @h name=c16_bytes_slice_n3 tier=quick flags=-Z+unstable-options+--cbmc-args+--memory-leak-check
    leak_harness!(c16_bytes_slice_n3, slice_case::<3>());
    // @h name=c16_bytes_slice_n8 tier=thorough flags=-Z+unstable-options+--cbmc-args+--memory-leak-check
    leak_harness!(c16_bytes_slice_n8, slice_case::<8>());
    // @h name=c16_bytes_vec_n0 tier=quick flags=-Z+unstable-options+--cbmc-args+--memory-leak-check
    leak_harness!(c16_bytes_vec_n0, vec_case::<0>());
    // @h name=c16_bytes_vec_n1 tier=quick flags=-Z+unstable-options+--cbmc-args+--memory-leak-check
    leak_harness!(c16_bytes_vec_n1, vec_case::<1>());
    // @h name=c16_bytes_vec_n3 tier=quick flags=-Z+unstable-options+--cbmc-args+--memory-leak-check
    leak_harness!(c16_bytes_vec_n3, vec_case::<3>());
    // @h name=c16_bytes_vec_n8 tier=thorough flags=-Z+unstable-options+--cbmc-args+--memory-leak-check
    leak_harness!(c16_bytes_vec_n8, vec_case::<8>());
    // @h name=c16_bytes_ctors_n0 tier=quick flags=-Z+unstable-options+--cbmc-args+--memory-leak-check
    leak_harness!(c16_bytes_ctors_n0, other_ctors::<0>());
    // @h name=c16_bytes_ctors_n2 tier=quick flags=-Z+unstable-options+--cbmc-args+--memory-leak-check
    leak_harness!(c16_bytes_ctors_n2, other_ctors::<2>());
    // @h name=c16_bytes_ctors_n5 tier=thorough flags=-Z+unstable-options+--cbmc-args+--memory-leak-check
    leak_harness!(c16_bytes_ctors_n5, other_ctors::<5>());

    fn cmp_hash<const N: usize, const M: usize>() {
        use std::hash::{BuildHasher, Hash, Hasher};
        let b1: [u8; N] = kani::any();
        let b2: [u8; M] = kani::any();
        let (s1, s2) = (&b1[..], &b2[..]);
        let x = SharedBytes::from_slice(s1);
        let y = SharedBytes::from_vec(vec_of(&b2, 1));
        assert_eq!(x == y, s1 == s2);
        assert_eq!(x.cmp(&y), s1.cmp(s2));
        assert_eq!(x.partial_cmp(&y), Some(s1.cmp(s2)));
        assert_eq!(x.partial_cmp(s2), Some(s1.cmp(s2)));
        assert_eq!(x == *s2, s1 == s2);
        assert_eq!(x == s2, s1 == s2);
        let seed: u64 = kani::any();
        unsafe { ahash::MODEL_SEED = seed; }
        let st = ahash::RandomState::new();
        let mut h1 = st.build_hasher(); x.hash(&mut h1);
        let mut h2 = st.build_hasher(); s1.hash(&mut h2);
        assert_eq!(h1.finish(), h2.finish());
        kani::cover!(s1 < s2);
        kani::cover!(s1 > s2);
        std::mem::forget(x);
        std::mem::forget(y);
    }

    // @h name=c16_bytes_cmp_2_2 tier=quick
    #[kani::proof]
    #[kani::unwind(6)]
    fn c16_bytes_cmp_2_2() { cmp_hash::<2, 2>(); kani::cover!(true); }

    // @h name=c16_bytes_cmp_1_2 tier=quick
    #[kani::proof]
    #[kani::unwind(6)]
    fn c16_bytes_cmp_1_2() { cmp_hash::<1, 2>(); }

    // @h name=c16_bytes_cmp_3_3 tier=thorough
    #[kani::proof]
    #[kani::unwind(6)]
    fn c16_bytes_cmp_3_3() { cmp_hash::<3, 3>(); }
}
