// C18 — ReloadId / AtomicReloadId sequential semantics over all 64-bit ids (E1, Kani).
#[cfg(kani)]
mod verif_c18 {
    use super::*;

    // @h name=c18_reload_id_update tier=quick
    #[kani::proof]
    fn c18_reload_id_update() {
        let a: usize = kani::any();
        let b: usize = kani::any();
        let mut id = ReloadId(a);
        let grew = id.update(ReloadId(b));
        assert_eq!(id.0, if a > b { a } else { b });
        assert_eq!(grew, b > a);
        // NEVER is the least id
        assert!(ReloadId::NEVER <= ReloadId(a));
        let mut n = ReloadId::NEVER;
        assert_eq!(n.update(ReloadId(a)), a != 0);
        let mut x = ReloadId(a);
        assert!(!x.update(ReloadId::NEVER));
        assert_eq!(x.0, a);
        assert_eq!(ReloadId::default(), ReloadId::NEVER);
        kani::cover!(grew);
        kani::cover!(!grew && a != b);
    }

    // @h name=c18_atomic_sequential tier=quick
    #[kani::proof]
    #[kani::unwind(5)]
    fn c18_atomic_sequential() { atomic_seq(4); }

    // @h name=c18_atomic_seq8 tier=thorough timeout=1800
    #[kani::proof]
    #[kani::unwind(9)]
    fn c18_atomic_seq8() { atomic_seq(8); }

    // @h name=c18_atomic_seq16 tier=thorough timeout=3600
    #[kani::proof]
    #[kani::unwind(17)]
    fn c18_atomic_seq16() { atomic_seq(16); }

    fn atomic_seq(steps: usize) {
        // symbolic sequence of <= 4 operations against a plain usize reference
        let init: usize = kani::any();
        let at = AtomicReloadId::with_value(ReloadId(init));
        let mut reference = init;
        let mut i = 0;
        while i < steps {
            let op: u8 = kani::any();
            let v: usize = kani::any();
            match op % 5 {
                0 => {
                    let r = at.update(ReloadId(v));
                    assert_eq!(r, v > reference);
                    if v > reference { reference = v; }
                    kani::cover!(r);
                }
                1 => {
                    let old = at.fetch_max(ReloadId(v));
                    assert_eq!(old.0, reference);
                    if v > reference { reference = v; }
                }
                2 => {
                    let old = at.swap(ReloadId(v));
                    assert_eq!(old.0, reference);
                    reference = v;
                }
                3 => {
                    at.store(ReloadId(v));
                    reference = v;
                }
                _ => {
                    assert_eq!(at.load().0, reference);
                }
            }
            assert_eq!(at.load().0, reference);
            i += 1;
        }
        assert_eq!(AtomicReloadId::new().load(), ReloadId::NEVER);
        assert_eq!(AtomicReloadId::default().load(), ReloadId::NEVER);
    }
}
