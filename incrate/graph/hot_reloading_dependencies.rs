// Dependency-graph kernel harnesses (DepsGraph), shared by C05 (order/closure), C06 (precision)
// and C08 (bounded termination on cyclic look-ups). Model map + loop-free model hasher.
// Universe: assets A0,A1,A2 = (Dy<u8>, "a"|"b"|"c"), files F0,F1 = ("f","x"),("g","x").
#[cfg(kani)]
mod verif_graph {
    use super::*;
    use crate::entry::verif_entry_common::Dy;
    use crate::SharedString;

    const NA: usize = 3; // assets
    const NF: usize = 2; // files
    // bit i (0..3) = asset i, bit 3+j = file j

    fn aid(i: usize) -> &'static str { match i { 0 => "a", 1 => "b", _ => "c" } }
    fn fid(j: usize) -> &'static str { if j == 0 { "f" } else { "g" } }
    fn akey(i: usize) -> OwnedKey { OwnedKey::new::<Dy<u8>>(SharedString::from(aid(i))) }
    fn adep(i: usize) -> Dependency { Dependency::Asset(akey(i)) }
    fn fdep(j: usize) -> Dependency { Dependency::File(SharedString::from(fid(j)), SharedString::from("x")) }
    fn fentry(j: usize) -> OwnedDirEntry { OwnedDirEntry::File(SharedString::from(fid(j)), SharedString::from("x")) }
    fn node(b: usize) -> Dependency { if b < NA { adep(b) } else { fdep(b - NA) } }
    fn typ() -> Type { Type::of::<Dy<u8>>() }

    fn deps_of(mask: u8) -> Dependencies {
        let mut d = Dependencies::empty();
        if mask & 1 != 0 { d.verif_insert(node(0)); }
        if mask & 2 != 0 { d.verif_insert(node(1)); }
        if mask & 4 != 0 { d.verif_insert(node(2)); }
        if mask & 8 != 0 { d.verif_insert(node(3)); }
        if mask & 16 != 0 { d.verif_insert(node(4)); }
        d
    }

    /// Representation invariant: rdeps = deps^-1 over the whole universe, and the forward sets
    /// equal the reference masks.
    fn check_invariant(g: &DepsGraph, masks: &[Option<u8>; NA]) {
        let x: usize = kani::any();
        let y: usize = kani::any();
        kani::assume(x < NA && y < NA + NF);
        let (dx, dy) = (node(x), node(y));
        let fwd = match g.0.get(&dx) { Some(n) => n.deps.verif_contains(&dy), None => false };
        let bwd = match g.0.get(&dy) { Some(n) => n.rdeps.contains(&dx), None => false };
        let expect = match masks[x] { Some(m) => m & (1 << y) != 0, None => false };
        assert_eq!(fwd, expect, "forward edge set differs from the last registered dependency set");
        assert_eq!(bwd, expect, "reverse edge set is not the inverse of the forward sets");
        // files never have forward edges or a type
        let j: usize = kani::any();
        kani::assume(j < NF);
        if let Some(n) = g.0.get(&fdep(j)) { assert!(n.typ.is_none() && n.deps.verif_len() == 0); }
    }

    /// reference: reverse reachability closure from the changed files
    fn closure(masks: &[Option<u8>; NA], changed: u8) -> u8 {
        let mut reach: u8 = changed & 0b11000; // files
        let mut round = 0;
        while round < NA {
            let mut i = 0;
            while i < NA {
                if let Some(m) = masks[i] { if m & reach != 0 { reach |= 1 << i; } }
                i += 1;
            }
            round += 1;
        }
        reach & 0b111
    }

    fn pos_of(list: &[Option<usize>; 4], a: usize) -> Option<usize> {
        let mut p = 0;
        while p < 4 { if list[p] == Some(a) { return Some(p); } p += 1; }
        None
    }

    fn index_of(k: &OwnedKey) -> usize {
        if &*k.id == "a" { 0 } else if &*k.id == "b" { 1 } else { 2 }
    }

    fn run_sort(g: &DepsGraph, changed: u8) -> ([Option<usize>; 4], usize) {
        let mut ev: Vec<OwnedDirEntry> = Vec::with_capacity(3);
        if changed & 0b01000 != 0 { ev.push(fentry(0)); }
        if changed & 0b10000 != 0 { ev.push(fentry(1)); }
        if changed & 0b100000 != 0 { ev.push(fentry(0)); } // duplicate notification
        let sorted = g.topological_sort_from(ev.iter());
        let mut list = [None; 4];
        let mut n = 0;
        for k in sorted.into_iter() {
            assert!(n < 4, "update list longer than the number of assets + 1");
            list[n] = Some(index_of(&k));
            n += 1;
        }
        std::mem::forget(ev);
        (list, n)
    }

    /// Acyclic family: asset i may depend on assets j < i and on any file. `steps` inserts with
    /// solver-chosen asset and mask (re-inserting an asset = rewiring at reload).
    fn dag_case(steps: usize, two_files: bool) {
        let mut g = DepsGraph::new();
        let mut masks: [Option<u8>; NA] = [None; NA];
        let mut s = 0;
        while s < steps {
            let i: usize = kani::any();
            let m: u8 = kani::any();
            kani::assume(i < NA);
            kani::assume(m & !0b11111 == 0);
            kani::assume(two_files || m & 0b10000 == 0);
            // acyclic: only lower-numbered assets
            kani::assume(m & 0b111 & !((1u8 << i) - 1) == 0);
            g.insert_asset(akey(i), deps_of(m), typ());
            masks[i] = Some(m);
            check_invariant(&g, &masks);
            s += 1;
        }
        let changed: u8 = kani::any();
        kani::assume(changed & !0b111000 == 0);
        kani::assume(two_files || changed & 0b10000 == 0);
        let (list, n) = run_sort(&g, changed);
        let want = closure(&masks, changed);
        // exactly the reverse-reachable assets, each once
        let a: usize = kani::any();
        kani::assume(a < NA);
        let p = pos_of(&list, a);
        assert_eq!(p.is_some(), want & (1 << a) != 0, "update list is not the reverse-reachable set");
        assert_eq!(n as u32, want.count_ones(), "an asset appears twice (or an unknown key appears) in the update list");
        // dependencies before dependents
        let b: usize = kani::any();
        kani::assume(b < NA && b != a);
        if let (Some(pa), Some(pb), Some(ma)) = (p, pos_of(&list, b), masks[a]) {
            if ma & (1 << b) != 0 { assert!(pb < pa, "a dependent is updated before its dependency"); }
        }
        // an event for an entry nobody read is not in the graph
        assert_eq!(g.contains(&fentry(1)), masks.iter().any(|m| matches!(m, Some(m) if m & 0b10000 != 0))
            || /* a stale node may remain after rewiring */ g.0.get(&fdep(1)).is_some());
        kani::cover!(n == 3);
        kani::cover!(n == 0 && changed != 0);
        std::mem::forget(g);
    }

    // @h name=graph_dag_2steps tier=parked timeout=7200 mem=24 props=C05,C06
    #[kani::proof]
    #[kani::unwind(8)]
    fn graph_dag_2steps() { dag_case(2, false); }

    // @h name=graph_dag_3steps tier=parked timeout=7200 mem=24 weight=2 props=C05,C06
    #[kani::proof]
    #[kani::unwind(8)]
    fn graph_dag_3steps() { dag_case(3, true); }

    // @h name=graph_dag_4steps tier=parked timeout=7200 mem=32 weight=3 props=C05,C06
    #[kani::proof]
    #[kani::unwind(8)]
    fn graph_dag_4steps() { dag_case(4, true); }

    // ---- C08 (b): look-up cycles. Bounded termination: the recursion in `visit` must end
    // (the unwinding assertion is the property) and each member is listed exactly once.
    fn cyc_case(shape: u8) {
        let mut g = DepsGraph::new();
        match shape {
            0 => { // A <-> B, A reads F0
                g.insert_asset(akey(0), deps_of(0b01010), typ());
                g.insert_asset(akey(1), deps_of(0b00001), typ());
            }
            1 => { // self loop: A looks itself up and reads F0
                g.insert_asset(akey(0), deps_of(0b01001), typ());
            }
            _ => { // 3-cycle A -> B -> C -> A, C reads F0
                g.insert_asset(akey(0), deps_of(0b00010), typ());
                g.insert_asset(akey(1), deps_of(0b00100), typ());
                g.insert_asset(akey(2), deps_of(0b01001), typ());
            }
        }
        let (list, n) = run_sort(&g, 0b01000);
        let members = match shape { 0 => 2, 1 => 1, _ => 3 };
        assert_eq!(n, members, "a member of the cycle is missing from or repeated in the update list");
        let a: usize = kani::any();
        kani::assume(a < members);
        assert!(pos_of(&list, a).is_some());
        std::mem::forget(g);
    }

    // @h name=graph_cycle_two tier=parked kind=bounded_termination timeout=7200 mem=32 weight=3 props=C08 role=look-up+cycle+A<->B+(graph+built+by+insert_asset)
    #[kani::proof]
    #[kani::unwind(5)]
    fn graph_cycle_two() { cyc_case(0); kani::cover!(true); }

    // @h name=graph_cycle_self tier=parked kind=bounded_termination timeout=7200 mem=32 weight=3 props=C08 role=self+look-up+(graph+built+by+insert_asset)
    #[kani::proof]
    #[kani::unwind(5)]
    fn graph_cycle_self() { cyc_case(1); kani::cover!(true); }

    // @h name=graph_cycle_three tier=parked kind=bounded_termination timeout=7200 mem=32 weight=3 props=C08 role=look-up+cycle+A->B->C->A+(graph+built+by+insert_asset)
    #[kani::proof]
    #[kani::unwind(6)]
    fn graph_cycle_three() { cyc_case(2); kani::cover!(true); }

    // ---- quick formulation: the graph state that `insert_asset` produces for these look-up shapes
    // (rdeps = deps^-1, checked by the thorough harnesses above and by graph_dag_*) is written
    // directly into the table, then the real `topological_sort_from` / `visit` run on it.
    fn node_with_rdeps(rd: &[usize]) -> GraphNode {
        let mut n = GraphNode::default();
        n.typ = Some(typ());
        let mut i = 0;
        while i < rd.len() { n.rdeps.insert(node(rd[i])); i += 1; }
        n
    }

    fn cyc_direct(shape: u8, from_file: bool) {
        let mut g = DepsGraph::new();
        match shape {
            0 => { // A <-> B (A reads F0):  rdeps(F0)={A}, rdeps(A)={B}, rdeps(B)={A}
                if from_file { g.0.insert(fdep(0), node_with_rdeps(&[0])); }
                g.0.insert(adep(0), node_with_rdeps(&[1]));
                g.0.insert(adep(1), node_with_rdeps(&[0]));
            }
            _ => { // A looks itself up (and reads F0): rdeps(F0)={A}, rdeps(A)={A}
                if from_file { g.0.insert(fdep(0), node_with_rdeps(&[0])); }
                g.0.insert(adep(0), node_with_rdeps(&[0]));
            }
        }
        let members = if shape == 0 { 2 } else { 1 };
        let mut n = 0;
        if from_file {
            let ev = [fentry(0)];
            let sorted = g.topological_sort_from(ev.iter());
            for _k in sorted.into_iter() { n += 1; assert!(n <= 3); }
            std::mem::forget(ev);
        } else {
            // the recursive step alone, started at the first member of the cycle
            let mut sort_data = TopologicalSortData { visited: HashSet::new(), list: Vec::new() };
            let k = akey(0);
            g.visit(&mut sort_data, BorrowedDependency::Asset(&k));
            n = sort_data.list.len();
            std::mem::forget(sort_data);
            std::mem::forget(k);
        }
        assert_eq!(n, members, "a member of the cycle is missing from or repeated in the update list");
        std::mem::forget(g);
    }

    // recursion bound = members + 2 frames: the repaired code needs members + 1
    // @h name=graph_cycvisit_self tier=quick kind=bounded_termination cap=1 timeout=600 props=C08 role=an+asset+that+looks+itself+up
    #[kani::proof]
    #[kani::unwind(3)]
    fn graph_cycvisit_self() { cyc_direct(1, false); kani::cover!(true); }

    // @h name=graph_cycvisit_two tier=parked kind=bounded_termination cap=2 timeout=7200 mem=32 props=C08 role=two+assets+that+look+each+other+up
    #[kani::proof]
    #[kani::unwind(4)]
    fn graph_cycvisit_two() { cyc_direct(0, false); kani::cover!(true); }

    // @h name=graph_cycsort_self tier=parked kind=bounded_termination timeout=3600 mem=24 weight=2 props=C08 role=self+look-up+from+a+file+event
    #[kani::proof]
    #[kani::unwind(5)]
    fn graph_cycsort_self() { cyc_direct(1, true); kani::cover!(true); }

    // @h name=graph_cycsort_two tier=parked kind=bounded_termination timeout=3600 mem=24 weight=2 props=C08 role=look-up+cycle+A<->B+from+a+file+event
    #[kani::proof]
    #[kani::unwind(5)]
    fn graph_cycsort_two() { cyc_direct(0, true); kani::cover!(true); }

    // ---- C06: an asset reached through two notified entries in one pass is listed exactly once;
    // an event for an entry nobody recorded selects nothing (direct graph state, cheap capacity).
    fn two_paths_case(leaf_has_dependent: bool) {
        let mut g = DepsGraph::new();
        // A reads F0 and F1; optionally B depends on A
        g.0.insert(fdep(0), node_with_rdeps(&[0]));
        g.0.insert(fdep(1), node_with_rdeps(&[0]));
        if leaf_has_dependent {
            g.0.insert(adep(0), node_with_rdeps(&[1]));
            g.0.insert(adep(1), node_with_rdeps(&[]));
        } else {
            g.0.insert(adep(0), node_with_rdeps(&[]));
        }
        let ev = [fentry(0), fentry(1)];
        let sorted = g.topological_sort_from(ev.iter());
        let mut n = 0;
        let mut seen_a = 0;
        let mut pos_a = 9;
        let mut pos_b = 9;
        for k in sorted.into_iter() {
            if index_of(&k) == 0 { seen_a += 1; pos_a = n; } else { pos_b = n; }
            n += 1;
            assert!(n <= 4);
        }
        assert_eq!(seen_a, 1, "an asset reached through two notified entries is rewritten twice in one pass");
        assert_eq!(n, if leaf_has_dependent { 2 } else { 1 }, "the update list is not exactly the affected assets");
        if leaf_has_dependent { assert!(pos_a < pos_b, "a dependent is updated before its dependency"); }
        std::mem::forget(g);
        std::mem::forget(ev);
    }

    // @h name=graph_two_paths_leaf tier=parked cap=3 timeout=5400 mem=32 weight=2 props=C06,C05 role=asset+reading+two+notified+files
    #[kani::proof]
    #[kani::unwind(6)]
    fn graph_two_paths_leaf() { two_paths_case(false); kani::cover!(true); }

    // an event for an entry nobody recorded selects nothing
    // @h name=graph_unknown_event tier=parked cap=2 timeout=5400 mem=32 weight=2 props=C06,C05 role=event+for+an+entry+absent+from+the+graph
    #[kani::proof]
    #[kani::unwind(5)]
    fn graph_unknown_event() {
        let mut g = DepsGraph::new();
        g.0.insert(fdep(0), node_with_rdeps(&[0]));
        g.0.insert(adep(0), node_with_rdeps(&[]));
        let unknown = OwnedDirEntry::File(SharedString::from("q"), SharedString::from("x"));
        let dir_same_id = OwnedDirEntry::Directory(SharedString::from("f"));
        assert!(!g.contains(&unknown) && !g.contains(&dir_same_id) && g.contains(&fentry(0)));
        let ev = [unknown, dir_same_id];
        let sorted = g.topological_sort_from(ev.iter());
        let mut n = 0;
        for _k in sorted.into_iter() { n += 1; assert!(n <= 2); }
        assert_eq!(n, 0, "an event for an entry nobody recorded triggered a reload");
        kani::cover!(true);
        std::mem::forget(g);
        std::mem::forget(ev);
    }

    // @h name=graph_two_paths_chain tier=parked cap=4 timeout=3600 mem=24 props=C06,C05 role=asset+reading+two+notified+files+with+a+dependent
    #[kani::proof]
    #[kani::unwind(7)]
    fn graph_two_paths_chain() { two_paths_case(true); kani::cover!(true); }

    // an asset reached twice in one pass (two notified entries it read, or a diamond) is listed once:
    // the second visit of an already listed node must return at once, also for a node nobody depends on
    // @h name=graph_visit_twice_leaf tier=quick cap=1 timeout=600 mem=30 props=C06,C05 role=asset+reached+through+two+notified+entries
    #[kani::proof]
    #[kani::unwind(3)]
    fn graph_visit_twice_leaf() {
        let mut g = DepsGraph::new();
        g.0.insert(adep(0), node_with_rdeps(&[]));
        let mut sort_data = TopologicalSortData { visited: HashSet::new(), list: Vec::new() };
        let k = akey(0);
        g.visit(&mut sort_data, BorrowedDependency::Asset(&k));
        assert_eq!(sort_data.list.len(), 1);
        g.visit(&mut sort_data, BorrowedDependency::Asset(&k));
        assert_eq!(sort_data.list.len(), 1, "an asset reached through two notified entries is rewritten twice in one pass");
        kani::cover!(true);
        std::mem::forget((sort_data, k, g));
    }
}
