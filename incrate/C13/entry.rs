// C13 (entry level) — every stored value is dropped exactly once; type erasure never lies.
#[cfg(kani)]
mod verif_c13 {
    use super::verif_entry_common::*;
    use super::*;

    #[repr(align(32))]
    struct A32(u8);
    struct Zst;

    // ---- drop accounting through the entry life cycle ----------------------------------------
    // @h name=c13_entry_drop_once tier=quick flags=-Z+unstable-options+--cbmc-args+--memory-leak-check
    #[kani::proof]
    #[kani::unwind(4)]
    fn c13_entry_drop_once() {
        let dynamic: bool = kani::any();
        let path: u8 = kani::any();
        kani::assume(path < 4);
        let v: u64 = kani::any();
        let e = CacheEntry::new(Dy(Tr(1, v)), sid("k"), || dynamic);
        assert_eq!(e.inner().inner.dynamic.is_some(), dynamic);
        assert_eq!(drops(1), 0);
        match path {
            0 => {
                // dropping the entry drops the value exactly once
                drop(e);
                assert_eq!(drops(1), 1);
            }
            1 => {
                // into_inner moves the value out: no drop until the caller drops it
                let (val, id) = e.into_inner::<Dy<Tr>>();
                assert_eq!(drops(1), 0);
                assert!(val.0 .1 == v && &*id == "k");
                drop(val);
                assert_eq!(drops(1), 1);
            }
            2 => {
                // a reload replaces the value: the old one is dropped once, the new one lives on
                kani::assume(dynamic);
                let nv: u64 = kani::any();
                e.inner().write(CacheEntry::new(Dy(Tr(2, nv)), sid("k"), || false));
                assert!(drops(1) == 1 && drops(2) == 0);
                let h: &Handle<Dy<Tr>> = e.inner().downcast_ref().unwrap();
                assert!(h.read().0 .1 == nv);
                drop(e);
                assert!(drops(1) == 1 && drops(2) == 1);
            }
            _ => {
                // two successive reloads
                kani::assume(dynamic);
                e.inner().write(CacheEntry::new(Dy(Tr(2, 0)), sid("k"), || true));
                e.inner().write(CacheEntry::new(Dy(Tr(3, 0)), sid("k"), || false));
                assert!(drops(1) == 1 && drops(2) == 1 && drops(3) == 0);
                let (val, _) = e.into_inner::<Dy<Tr>>();
                assert!(val.0 .0 == 3 && drops(3) == 0);
                drop(val);
                assert_eq!(drops(3), 1);
            }
        }
        kani::cover!(path == 2);
        kani::cover!(path == 1 && !dynamic);
    }

    // layouts: zero-sized, 1 byte, heap-owning, over-aligned, two words — static and dynamic,
    // create / read / (reload) / into_inner or drop; CBMC checks every dealloc layout and leaks.
    fn layout_case<T: Send + Sync + 'static>(mk: fn(u8) -> T, probe: fn(&T) -> u8, tagged: bool) {
        let dynamic: bool = kani::any();
        let x: u8 = kani::any();
        let y: u8 = kani::any();
        kani::assume(tagged || (x == 0 && y == 0));
        let e = CacheEntry::new(Dy(mk(x)), sid("k"), || dynamic);
        {
            let h: &Handle<Dy<T>> = e.inner().downcast_ref().unwrap();
            assert_eq!(probe(&h.read().0), x);
            assert!(h.as_untyped() as *const UntypedHandle as *const u8 == e.inner() as *const UntypedHandle as *const u8);
            assert_eq!(&**h.id(), "k");
        }
        let mut expect = x;
        if dynamic && kani::any() {
            e.inner().write(CacheEntry::new(Dy(mk(y)), sid("k"), || false));
            expect = y;
        }
        if kani::any() {
            let (v, _) = e.into_inner::<Dy<T>>();
            assert_eq!(probe(&v.0), expect);
        } else {
            let g = e.inner().read();
            let g = g.downcast::<Dy<T>>().ok().unwrap();
            assert_eq!(probe(&g.0), expect);
            drop(g);
            drop(e);
        }
    }

    // @h name=c13_layout_zst tier=quick flags=-Z+unstable-options+--cbmc-args+--memory-leak-check
    #[kani::proof]
    #[kani::unwind(4)]
    fn c13_layout_zst() { layout_case::<Zst>(|_| Zst, |_| 0, false); kani::cover!(true); }
    // note: the zero-sized instance ignores its tag, so x and y are forced equal below
    // @h name=c13_layout_u8 tier=quick flags=-Z+unstable-options+--cbmc-args+--memory-leak-check
    #[kani::proof]
    #[kani::unwind(4)]
    fn c13_layout_u8() { layout_case::<u8>(|x| x, |v| *v, true); }
    // @h name=c13_layout_box tier=quick flags=-Z+unstable-options+--cbmc-args+--memory-leak-check
    #[kani::proof]
    #[kani::unwind(4)]
    fn c13_layout_box() { layout_case::<Box<u8>>(|x| Box::new(x), |v| **v, true); }
    // @h name=c13_layout_align32 tier=quick flags=-Z+unstable-options+--cbmc-args+--memory-leak-check
    #[kani::proof]
    #[kani::unwind(6)]
    fn c13_layout_align32() { layout_case::<A32>(|x| A32(x), |v| v.0, true); }
    // @h name=c13_layout_pair tier=quick flags=-Z+unstable-options+--cbmc-args+--memory-leak-check
    #[kani::proof]
    #[kani::unwind(4)]
    fn c13_layout_pair() { layout_case::<(u64, u64)>(|x| (x as u64, !(x as u64)), |v| { assert!(v.1 == !v.0); v.0 as u8 }, true); }

    // ---- type erasure: a handle can be viewed only as the type it was created with -----------
    fn erasure_case<T: Storable, U: Storable>(v: T, same: bool) {
        let dynamic: bool = kani::any();
        let e = CacheEntry::new(v, sid("k"), || dynamic);
        let h = e.inner();
        assert!(h.is::<T>());
        assert!(h.downcast_ref::<T>().is_some());
        assert_eq!(h.is::<U>(), same);
        assert_eq!(h.downcast_ref::<U>().is_some(), same);
        assert_eq!(h.read().downcast::<U>().is_ok(), same);
        assert_eq!(e.type_id() == TypeId::of::<U>(), same);
        std::mem::forget(e);
    }

    // @h name=c13_erasure_pairs tier=quick
    #[kani::proof]
    #[kani::unwind(4)]
    fn c13_erasure_pairs() {
        let pick: u8 = kani::any();
        kani::assume(pick < 8);
        match pick {
            0 => erasure_case::<Dy<u8>, St<u8>>(Dy(1), false),
            1 => erasure_case::<St<u8>, Dy<u8>>(St(1), false),
            2 => erasure_case::<Dy<u8>, Dy<u16>>(Dy(1), false),
            3 => erasure_case::<Dy<(u64, u64)>, Dy<[u64; 2]>>(Dy((1, 2)), false),
            4 => erasure_case::<St<Zst>, Dy<Zst>>(St(Zst), false),
            5 => erasure_case::<Dy<Box<u8>>, Dy<Box<u8>>>(Dy(Box::new(1)), true),
            6 => erasure_case::<u8, i8>(1u8, false),
            _ => erasure_case::<St<A32>, St<u8>>(St(A32(1)), false),
        }
        kani::cover!(pick == 5);
        kani::cover!(pick == 7);
    }

    // wrong-type requests must panic and never return a reinterpreted value: the only failing check
    // allowed is the crate's own "wrong handle type" panic; the trailing assert must be unreachable.
    // @h name=c13_into_inner_wrong_type tier=quick kind=must_panic expect=wrong+handle+type
    #[kani::proof]
    #[kani::unwind(4)]
    fn c13_into_inner_wrong_type() {
        let e = CacheEntry::new(Dy(7u8), sid("k"), || kani::any());
        if kani::any() {
            let (_v, _) = e.into_inner::<Dy<u16>>();
        } else {
            let (_v, _) = e.into_inner::<St<u8>>();
        }
        assert!(false, "REINTERPRETED: into_inner returned for a wrong type");
    }

    // @h name=c13_downcast_ref_ok_wrong_type tier=quick kind=must_panic expect=wrong+handle+type
    #[kani::proof]
    #[kani::unwind(4)]
    fn c13_downcast_ref_ok_wrong_type() {
        let e = CacheEntry::new(St(7u8), sid("k"), || kani::any());
        let _h: &Handle<Dy<u8>> = e.inner().downcast_ref_ok();
        assert!(false, "REINTERPRETED: downcast_ref_ok returned for a wrong type");
    }

    // @h name=c13_write_wrong_type tier=quick kind=must_panic expect=self.type_id+==+value.0.type_id
    #[kani::proof]
    #[kani::unwind(4)]
    fn c13_write_wrong_type() {
        let e = CacheEntry::new(Dy(7u8), sid("k"), || true);
        e.inner().write(CacheEntry::new(Dy(7u16), sid("k"), || true));
        assert!(false, "REINTERPRETED: write accepted a value of another type");
    }
}
