// C07 — readers are isolated from reloads (entry level, lock model, device S2 of DESIGN §5).
#[cfg(kani)]
mod verif_c07 {
    use super::verif_entry_common::*;
    use super::*;
    use parking_lot::Ev;

    type V = Dy<(u64, u64)>;

    // ---- ghost log of lock events on the entry under test
    static mut ENTRY: Option<*const UntypedHandle> = None;
    static mut LOCK_ADDR: usize = 0;
    #[derive(Clone, Copy, PartialEq)]
    struct Snap { a: u64, b: u64, id: usize, flag: bool }
    static mut AT_ACQUIRE: Option<Snap> = None;
    static mut AT_RELEASE: Option<Snap> = None;
    static mut AT_BLOCK: Option<Snap> = None;
    static mut N_WRITE_ACQ: usize = 0;
    static mut N_WRITE_REL: usize = 0;
    static mut N_READ_ACQ: usize = 0;
    static mut N_READ_REL: usize = 0;
    static mut RELEASE_CLOCK: usize = 0;

    unsafe fn snap() -> Snap {
        let h = &*ENTRY.unwrap();
        let v = &*(h.inner.value.get() as *const V);
        let d = h.inner.dynamic.as_ref().unwrap();
        Snap { a: v.0 .0, b: v.0 .1, id: d.reload.0.load(Ordering::Relaxed), flag: d.reload_global.load(Ordering::Relaxed) }
    }

    fn on_event(e: Ev, addr: usize) {
        unsafe {
            if addr != LOCK_ADDR { return; }
            CLOCK += 1;
            match e {
                Ev::WriteAcquire => { N_WRITE_ACQ += 1; AT_ACQUIRE = Some(snap()); }
                Ev::WriteRelease => { N_WRITE_REL += 1; AT_RELEASE = Some(snap()); RELEASE_CLOCK = CLOCK; }
                Ev::ReadAcquire => N_READ_ACQ += 1,
                Ev::ReadRelease => N_READ_REL += 1,
                _ => {}
            }
        }
    }

    fn on_block(e: Ev, addr: usize) {
        unsafe {
            assert!(addr == LOCK_ADDR);
            assert!(e == Ev::WouldBlockWrite);
            AT_BLOCK = Some(snap());
            // nothing may have been touched before the writer blocks
            let s = AT_BLOCK.unwrap();
            assert!(Some(s) == PRE);
            kani::cover!(true, "a write attempted under a live read guard reports would-block");
            // the blocked writer stays blocked for as long as the guard lives: end of this path
            kani::assume(false);
        }
    }
    static mut PRE: Option<Snap> = None;

    fn setup(a: u64, b: u64) -> CacheEntry {
        let e = CacheEntry::new(Dy((a, b)), sid("a"), || true);
        unsafe {
            ENTRY = Some(e.inner() as *const UntypedHandle);
            LOCK_ADDR = e.inner().inner.dynamic.as_ref().unwrap().lock.verif_addr();
        }
        parking_lot::set_event_hook(Some(on_event));
        e
    }

    fn readers(e: &CacheEntry) -> usize { e.inner().inner.dynamic.as_ref().unwrap().lock.verif_readers() }

    // (a) every kind of guard holds the read lock for exactly its own lifetime
    // @h name=c07_guard_pins_lock tier=quick props=C07,C13
    #[kani::proof]
    #[kani::unwind(4)]
    fn c07_guard_pins_lock() {
        let (a, b): (u64, u64) = (kani::any(), kani::any());
        let e = setup(a, b);
        let uh = e.inner();
        let th: &Handle<V> = uh.downcast_ref().unwrap();
        assert_eq!(readers(&e), 0);
        let shape: u8 = kani::any();
        kani::assume(shape < 7);
        match shape {
            0 => { let g = th.read(); assert_eq!(readers(&e), 1); assert!(g.0 .0 == a && g.0 .1 == b); drop(g); }
            1 => {
                let g = AssetReadGuard::map(th.read(), |v| &v.0 .1);
                assert_eq!(readers(&e), 1); assert_eq!(*g, b); drop(g);
            }
            2 => {
                let g = AssetReadGuard::try_map(th.read(), |v| Some(&v.0 .0));
                assert_eq!(readers(&e), 1);
                match g { Ok(g) => { assert_eq!(*g, a); assert_eq!(readers(&e), 1); drop(g); } Err(_) => unreachable!() }
            }
            3 => {
                let g = AssetReadGuard::try_map(th.read(), |_v| None::<&u64>);
                assert_eq!(readers(&e), 1);
                match g { Err(g) => { assert!(g.0 .0 == a); assert_eq!(readers(&e), 1); drop(g); } Ok(_) => unreachable!() }
            }
            4 => {
                let g = uh.read().downcast::<V>();
                assert_eq!(readers(&e), 1);
                match g { Ok(g) => { assert!(g.0 .1 == b); drop(g); } Err(_) => unreachable!() }
            }
            5 => {
                let g = uh.read().downcast::<u8>();
                assert_eq!(readers(&e), 1);
                match g { Err(g) => { assert_eq!(readers(&e), 1); drop(g); } Ok(_) => unreachable!() }
            }
            _ => {
                // two guards at once, copied()/cloned() take and release the lock
                let g1 = th.read();
                let g2 = uh.read();
                assert_eq!(readers(&e), 2);
                drop(g1);
                assert_eq!(readers(&e), 1);
                drop(g2);
            }
        }
        assert_eq!(readers(&e), 0);
        unsafe { assert!(N_READ_ACQ == N_READ_REL && N_READ_ACQ >= 1 && N_WRITE_ACQ == 0); }
        // short reads (copied / cloned) go through the lock as well: exactly one acquire + release each
        let before = unsafe { N_READ_ACQ };
        let c = th.copied();
        assert!(c.0 .0 == a && c.0 .1 == b);
        unsafe { assert!(N_READ_ACQ == before + 1 && N_READ_REL == before + 1, "Handle::copied read the value without holding the read lock"); }
        let c2 = th.cloned();
        assert!(c2.0 .1 == b);
        unsafe { assert!(N_READ_ACQ == before + 2 && N_READ_REL == before + 2, "Handle::cloned read the value without holding the read lock"); }
        kani::cover!(shape == 3);
        kani::cover!(shape == 6);
        std::mem::forget(e);
    }

    // (b) write(): everything observable changes strictly inside the write section, the old value
    //     is dropped after the lock is released
    // @h name=c07_write_section tier=quick props=C07,C06,C13
    #[kani::proof]
    #[kani::unwind(4)]
    fn c07_write_section() {
        let (a, b, na, nb): (u64, u64, u64, u64) = (kani::any(), kani::any(), kani::any(), kani::any());
        let e = CacheEntry::new(Dy(Tr(1, a)), sid("a"), || true);
        // Tr-valued twin for the drop-order clause
        unsafe {
            LOCK_ADDR = e.inner().inner.dynamic.as_ref().unwrap().lock.verif_addr();
            ENTRY = None;
        }
        fn ev_only(ev: Ev, addr: usize) {
            unsafe {
                if addr != LOCK_ADDR { return; }
                CLOCK += 1;
                if ev == Ev::WriteRelease { RELEASE_CLOCK = CLOCK; N_WRITE_REL += 1; }
                if ev == Ev::WriteAcquire { N_WRITE_ACQ += 1; }
            }
        }
        parking_lot::set_event_hook(Some(ev_only));
        e.inner().write(CacheEntry::new(Dy(Tr(2, na)), sid("a"), || false));
        unsafe {
            assert!(N_WRITE_ACQ == 1 && N_WRITE_REL == 1);
            assert_eq!(drops(1), 1); // the replaced value is dropped exactly once ...
            assert!(DROP_AT[1] >= RELEASE_CLOCK && RELEASE_CLOCK > 0); // ... after the write lock was released
            assert_eq!(drops(2), 0);
        }
        let h: &Handle<Dy<Tr>> = e.inner().downcast_ref().unwrap();
        assert!(h.read().0 .1 == na);
        std::mem::forget(e);

        // plain-data twin: snapshots at acquire / release
        unsafe { N_WRITE_ACQ = 0; N_WRITE_REL = 0; }
        let e = setup(a, b);
        let pre = unsafe { snap() };
        e.inner().write(CacheEntry::new(Dy((na, nb)), sid("a"), || false));
        unsafe {
            assert!(N_WRITE_ACQ == 1 && N_WRITE_REL == 1);
            assert!(AT_ACQUIRE == Some(pre)); // nothing changed before the lock was taken
            let rel = AT_RELEASE.unwrap();
            assert!(rel.a == na && rel.b == nb && rel.id == pre.id + 1 && rel.flag);
            assert!(snap() == rel); // nothing changes after the lock is released
        }
        assert_eq!(readers(&e), 0);
        std::mem::forget(e);
    }

    // (c) a write attempted while a read guard lives blocks before touching anything
    // @h name=c07_write_blocks_under_guard tier=quick props=C07,C13
    #[kani::proof]
    #[kani::unwind(4)]
    fn c07_write_blocks_under_guard() {
        let (a, b, na, nb): (u64, u64, u64, u64) = (kani::any(), kani::any(), kani::any(), kani::any());
        let e = setup(a, b);
        let th: &Handle<V> = e.inner().downcast_ref().unwrap();
        let mapped: bool = kani::any();
        let g1;
        let g2;
        if mapped {
            g1 = None;
            g2 = Some(AssetReadGuard::map(th.read(), |v| &v.0 .0));
        } else {
            g1 = Some(th.read());
            g2 = None;
        }
        unsafe { PRE = Some(snap()); }
        parking_lot::set_block_hook(Some(on_block));
        e.inner().write(CacheEntry::new(Dy((na, nb)), sid("a"), || false));
        // not reachable: the model reports would-block and the path ends in `on_block`
        assert!(false, "write proceeded while a read guard was alive");
        drop(g1);
        drop(g2);
    }
}
