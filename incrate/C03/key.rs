// C03 — the entry wrapper (key::Inner::of_asset::load_entry): a failing load is reported under the
// REQUESTED id with the loader's error as reason (compounds wrap inner errors, never adopt their id);
// a successful load stores the loader's value under the requested id.
#[cfg(kani)]
mod verif_c03_wrapper {
    use super::*;
    use crate::{AssetCache, BoxedError};

    #[derive(Debug)]
    struct Plain(u8);
    impl fmt::Display for Plain { fn fmt(&self, f: &mut fmt::Formatter<'_>) -> fmt::Result { f.write_str("plain") } }
    impl std::error::Error for Plain {}

    static mut MODE: u8 = 0;
    struct K(u8);
    impl Compound for K {
        fn load(_cache: AnyCache, id: &SharedString) -> Result<Self, BoxedError> {
            match unsafe { MODE } {
                0 => Ok(K(id.len() as u8)),
                1 => Err(Box::new(Plain(7))),
                // a compound propagating the error of an inner asset with ANOTHER id
                _ => Err(Box::new(Error::new(SharedString::from("in"), Box::new(Plain(9))))),
            }
        }
    }

    fn wrapper_case(mode: u8) {
        unsafe { MODE = mode; }
        let cache = AssetCache::verif_new(crate::source::Empty, None);
        let typ = Type::of::<K>();
        let r = (typ.inner.load)(cache.as_any_cache(), SharedString::from("out"));
        match r {
            Ok(entry) => {
                assert!(mode == 0);
                assert!(&**entry.id() == "out" && entry.type_id() == TypeId::of::<K>());
                let (v, id) = entry.into_inner::<K>();
                assert!(v.0 == 3 && &*id == "out");
            }
            Err(e) => {
                assert!(mode != 0);
                assert!(&**e.id() == "out", "the error does not name the requested id");
                // the reason is exactly what the load function returned
                let p = e.reason() as *const dyn std::error::Error as *const u8;
                if mode == 1 {
                    assert!(unsafe { (*(p as *const Plain)).0 } == 7);
                } else {
                    let inner = unsafe { &*(p as *const Error) };
                    assert!(&**inner.id() == "in", "the inner error was altered");
                }
                std::mem::forget(e);
            }
        }
        std::mem::forget(cache);
    }

    // @h name=c03_wrapper_ok tier=parked cap=1 timeout=3600 mem=24
    #[kani::proof]
    #[kani::unwind(6)]
    fn c03_wrapper_ok() { wrapper_case(0); kani::cover!(true); }
    // @h name=c03_wrapper_plain_error tier=quick cap=1 timeout=240
    #[kani::proof]
    #[kani::unwind(6)]
    fn c03_wrapper_plain_error() { wrapper_case(1); kani::cover!(true); }
    // @h name=c03_wrapper_nested_error tier=quick cap=1 timeout=240
    #[kani::proof]
    #[kani::unwind(6)]
    fn c03_wrapper_nested_error() { wrapper_case(2); kani::cover!(true); }
}
