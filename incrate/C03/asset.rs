// C03 (b) — load_from_source: the first declared extension whose file can be read and decoded
// wins; otherwise default_value decides; otherwise the error of maximal rank is reported.
#[cfg(kani)]
mod verif_c03_load {
    use super::*;
    use crate::verif_world::*;

    fn expected(outs: &[Out], n: usize) -> Result<Val, u8> {
        let mut best = 0u8;
        let mut i = 0;
        while i < n {
            match outs[i] {
                Out::Absent => { if best < 1 { best = 1; } }
                Out::Unreadable(_) => { if best < 2 { best = 2; } }
                Out::Data { b0, b1, len, .. } => {
                    if len >= 1 && b0 == 0xFF { best = 3; }
                    else { return Ok(Val { len, b0: if len >= 1 { b0 } else { 0 }, b1: if len >= 2 { b1 } else { 0 }, ext: i as u8 }); }
                }
            }
            i += 1;
        }
        Err(best)
    }

    /// Outcome of one extension with a concrete shape and symbolic payload:
    /// 0 absent, 1 unreadable (symbolic non-NotFound kind), 2 undecodable, 3 decodable; content variant `how`.
    fn shaped(shape: u8, how: u8) -> Out {
        let (b0, b1, len): (u8, u8, u8) = (kani::any(), kani::any(), kani::any());
        match shape {
            0 => Out::Absent,
            1 => { let k: u8 = kani::any(); kani::assume(k < 3); Out::Unreadable(k) }
            2 => { kani::assume(len >= 1 && len <= 2); Out::Data { b0: 0xFF, b1, len, how } }
            _ => { kani::assume(len <= 2 && (len == 0 || b0 != 0xFF)); Out::Data { b0, b1, len, how } }
        }
    }

    fn case<T: Asset>(n: usize, shapes: [u8; 3], how: u8, get: fn(&T) -> Val) {
        let mut mem = Mem::empty();
        let outs = [shaped(shapes[0], how), shaped(shapes[1], how), shaped(shapes[2], how)];
        mem.set(0, 0, outs[0]);
        mem.set(0, 1, outs[1]);
        mem.set(0, 2, outs[2]);
        let id = SharedString::from("a");
        let r = load_from_source::<T>(&mem, &id);
        // exactly the declared extensions are tried, in order, stopping at the first success
        let want = expected(&outs, n);
        match (&r, &want) {
            (Ok(v), Ok(w)) => { assert!(get(v) == *w, "loaded value is not the loader's result on the first usable extension"); }
            (Err(e), Err(rank)) => { assert_eq!(rank_of(e), *rank, "error precedence violated"); }
            (Ok(_), Err(_)) => assert!(false, "load succeeded although no declared extension is usable"),
            (Err(_), Ok(_)) => assert!(false, "load failed although a declared extension is readable and decodable"),
        }
        let tried = match &want { Ok(w) => w.ext as usize + 1, Err(_) => n };
        assert_eq!(mem.reads.get(), tried, "wrong number of source reads");
        std::mem::forget(r);
    }

    macro_rules! shape_harness {
        ($name:ident, $ty:ty, $n:expr, $shapes:expr, $how:expr) => {
            #[kani::proof]
            #[kani::unwind(5)]
            fn $name() { case::<$ty>($n, $shapes, $how, |v| v.0); kani::cover!(true); }
        };
    }

    // one extension: all 4 shapes x the three FileContent variants
    // @h name=c03_s1_a tier=parked timeout=5400 mem=32 weight=2 flags=-Z+restrict-vtable
    shape_harness!(c03_s1_a, X1, 1, [0, 3, 3], 0);
    // @h name=c03_s1_u tier=parked timeout=5400 mem=32 weight=2 flags=-Z+restrict-vtable
    shape_harness!(c03_s1_u, X1, 1, [1, 3, 3], 0);
    // @h name=c03_s1_x_slice tier=parked timeout=5400 mem=32 weight=2 flags=-Z+restrict-vtable
    shape_harness!(c03_s1_x_slice, X1, 1, [2, 3, 3], 0);
    // @h name=c03_s1_d_slice tier=parked timeout=5400 mem=32 weight=2 flags=-Z+restrict-vtable
    shape_harness!(c03_s1_d_slice, X1, 1, [3, 0, 0], 0);
    // @h name=c03_s1_d_buffer tier=parked timeout=5400 mem=32 weight=2 flags=-Z+restrict-vtable
    shape_harness!(c03_s1_d_buffer, X1, 1, [3, 0, 0], 1);
    // @h name=c03_s1_d_owned tier=parked timeout=5400 mem=32 weight=2 flags=-Z+restrict-vtable
    shape_harness!(c03_s1_d_owned, X1, 1, [3, 0, 0], 2);
    // @h name=c03_s1_x_owned tier=parked timeout=5400 mem=32 weight=2 flags=-Z+restrict-vtable
    shape_harness!(c03_s1_x_owned, X1, 1, [2, 0, 0], 2);

    // @h name=c03_load_ext0 tier=quick timeout=300 flags=-Z+restrict-vtable
    #[kani::proof]
    #[kani::unwind(5)]
    fn c03_load_ext0() {
        let mem = Mem::empty();
        let id = SharedString::from("a");
        let r = load_from_source::<X0>(&mem, &id);
        assert!(r.is_err() && mem.reads.get() == 0);
        kani::cover!(true);
        std::mem::forget(r);
    }

    // @h name=c03_load_default tier=parked timeout=5400 mem=32 weight=2 flags=-Z+restrict-vtable
    #[kani::proof]
    #[kani::unwind(5)]
    fn c03_load_default() {
        let mut mem = Mem::empty();
        let outs = [shaped(2, 0), shaped(1, 0), Out::Absent];
        mem.set(0, 0, outs[0]);
        mem.set(0, 1, outs[1]);
        let id = SharedString::from("a");
        let r = load_from_source::<Dflt>(&mem, &id);
        match (r, expected(&outs, 2)) {
            (Ok(v), Ok(w)) => assert!(v.0 == w),
            (Ok(v), Err(_)) => assert!(v.0.len == 0xD0, "default_value was not used"),
            (Err(_), _) => assert!(false, "a type whose default_value always succeeds failed to load"),
        }
    }

    // ---- load_from_source over a minimal source (no shared Mem state): is it decidable at all? ----
    struct Tiny { present: [bool; 2], bytes: [u8; 2] }
    impl Source for Tiny {
        fn read(&self, _id: &str, ext: &str) -> io::Result<crate::source::FileContent> {
            let i = if ext == "x" { 0 } else if ext == "y" { 1 } else { return Err(io::Error::from(io::ErrorKind::NotFound)); };
            if self.present[i] { Ok(crate::source::FileContent::Slice(&self.bytes[i..i + 1])) } else { Err(io::Error::from(io::ErrorKind::NotFound)) }
        }
        fn read_dir(&self, _id: &str, _f: &mut dyn FnMut(crate::source::DirEntry)) -> io::Result<()> { Err(io::Error::from(io::ErrorKind::NotFound)) }
        fn exists(&self, _e: crate::source::DirEntry) -> bool { false }
    }

    // @h name=c03_tiny_first_present tier=parked timeout=240
    #[kani::proof]
    #[kani::unwind(5)]
    fn c03_tiny_first_present() {
        let b: u8 = kani::any();
        kani::assume(b != 0xFF);
        let src = Tiny { present: [true, true], bytes: [b, 7] };
        let id = SharedString::from("a");
        let r = load_from_source::<X2>(&src, &id);
        match &r { Ok(v) => assert!(v.0.b0 == b && v.0.ext == 0 && v.0.len == 1), Err(_) => assert!(false) }
        std::mem::forget(r);
    }

    // @h name=c03_tiny_second_present tier=parked timeout=240
    #[kani::proof]
    #[kani::unwind(5)]
    fn c03_tiny_second_present() {
        let b: u8 = kani::any();
        kani::assume(b != 0xFF);
        let src = Tiny { present: [false, true], bytes: [3, b] };
        let id = SharedString::from("a");
        let r = load_from_source::<X2>(&src, &id);
        match &r { Ok(v) => assert!(v.0.b0 == b && v.0.ext == 1), Err(_) => assert!(false) }
        std::mem::forget(r);
    }

    // both extensions fail, in either order: the error of higher rank survives the fold,
    // wherever in the list it occurred (undecodable = 3 > not found = 1)
    fn fold_case(first_bad: bool) {
        let src = if first_bad { Tiny { present: [true, false], bytes: [0xFF, 0] } } else { Tiny { present: [false, true], bytes: [0, 0xFF] } };
        let id = SharedString::from("a");
        let r = load_from_source::<X2>(&src, &id);
        match &r {
            Ok(_) => assert!(false, "load succeeded although no declared extension is usable"),
            Err(e) => assert!(rank_of(e) == 3, "error precedence violated: a decoding error was replaced by a not-found error"),
        }
        kani::cover!(true);
        std::mem::forget(r);
    }
    // measured: out of memory after 595 s (io::Error bit-packed repr: drop glue and kind() fork on the pointer tag)
    // @h name=c03_fold_bad_then_absent tier=parked timeout=600 flags=-Z+restrict-vtable
    #[kani::proof]
    #[kani::unwind(5)]
    fn c03_fold_bad_then_absent() { fold_case(true) }
    // @h name=c03_fold_absent_then_bad tier=parked timeout=600 flags=-Z+restrict-vtable
    #[kani::proof]
    #[kani::unwind(5)]
    fn c03_fold_absent_then_bad() { fold_case(false) }

    // no extension at all: default_value alone decides
    #[derive(Clone, Copy, PartialEq, Debug)]
    struct D0(u8);
    impl crate::loader::Loader<D0> for L { fn load(_c: std::borrow::Cow<[u8]>, _e: &str) -> Result<D0, BoxedError> { Ok(D0(1)) } }
    impl Asset for D0 {
        const EXTENSIONS: &'static [&'static str] = &[];
        type Loader = L;
        fn default_value(_id: &SharedString, error: BoxedError) -> Result<Self, BoxedError> { std::mem::forget(error); Ok(D0(0xD0)) }
    }
    // @h name=c03_load_noext_default tier=quick timeout=300
    #[kani::proof]
    #[kani::unwind(5)]
    fn c03_load_noext_default() {
        let mem = Mem::empty();
        let id = SharedString::from("a");
        let r = load_from_source::<D0>(&mem, &id);
        match &r { Ok(v) => assert!(v.0 == 0xD0), Err(_) => assert!(false, "default_value returned Ok but the load failed") }
        assert!(mem.reads.get() == 0);
        kani::cover!(true);
        std::mem::forget(r);
    }
}
