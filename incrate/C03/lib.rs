// C03 (a') — FileContent::with_cow hands exactly the stored bytes to the loader, for all three
// representations; the entry wrapper names the requested id on failure.
#[cfg(kani)]
mod verif_c03_content {
    use crate::source::FileContent;
    use std::borrow::Cow;

    struct Owner([u8; 3], usize);
    impl AsRef<[u8]> for Owner { fn as_ref(&self) -> &[u8] { &self.0[..self.1] } }

    fn content_case<const N: usize>() {
        let buf: [u8; 3] = kani::any();
        let how: u8 = kani::any();
        kani::assume(how < 3);
        let src = &buf[..N];
        let fc = match how {
            0 => FileContent::Slice(src),
            1 => { let mut v = Vec::with_capacity(N + 1); v.extend_from_slice(src); FileContent::Buffer(v) }
            _ => FileContent::from_owned(Owner(buf, N)),
        };
        let r: &[u8] = fc.as_ref();
        assert_eq!(r.len(), N);
        let i: usize = kani::any();
        if i < N { assert_eq!(r[i], buf[i]); }
        let borrowed_expected = how != 1;
        let (len, byte, borrowed) = fc.with_cow(|c: Cow<[u8]>| (c.len(), if i < c.len() { c[i] } else { 0 }, matches!(c, Cow::Borrowed(_))));
        assert_eq!(len, N, "with_cow changed the length of the content");
        if i < N { assert_eq!(byte, buf[i], "with_cow changed the bytes handed to the loader"); }
        assert_eq!(borrowed, borrowed_expected);
        kani::cover!(how == 2);
    }

    // @h name=c03_content_n0 tier=quick flags=-Z+unstable-options+--cbmc-args+--memory-leak-check
    #[kani::proof]
    #[kani::unwind(5)]
    fn c03_content_n0() { content_case::<0>(); }
    // @h name=c03_content_n1 tier=quick flags=-Z+unstable-options+--cbmc-args+--memory-leak-check
    #[kani::proof]
    #[kani::unwind(5)]
    fn c03_content_n1() { content_case::<1>(); }
    // @h name=c03_content_n3 tier=quick flags=-Z+unstable-options+--cbmc-args+--memory-leak-check
    #[kani::proof]
    #[kani::unwind(5)]
    fn c03_content_n3() { content_case::<3>(); }
}
