// C03 (a') — FileContent::with_cow hands exactly the stored bytes to the loader, for all three
// representations; the entry wrapper names the requested id on failure.
#[cfg(kani)]
mod verif_c03_content {
    use crate::source::FileContent;
    use std::borrow::Cow;

    struct Owner([u8; 3], usize);
    impl AsRef<[u8]> for Owner { fn as_ref(&self) -> &[u8] { &self.0[..self.1] } }

    fn content_case<const N: usize>() {
        let buf: [u8; 3] = kani::any();
        let how: u8 = kani::any();
        kani::assume(how < 3);
        let src = &buf[..N];
        let fc = match how {
            0 => FileContent::Slice(src),
            1 => { let mut v = Vec::with_capacity(N + 1); v.extend_from_slice(src); FileContent::Buffer(v) }
            _ => FileContent::from_owned(Owner(buf, N)),
        };
        let r: &[u8] = fc.as_ref();
        assert_eq!(r.len(), N);
        let i: usize = kani::any();
        if i < N { assert_eq!(r[i], buf[i]); }
        let borrowed_expected = how != 1;
        let (len, byte, borrowed) = fc.with_cow(|c: Cow<[u8]>| (c.len(), if i < c.len() { c[i] } else { 0 }, matches!(c, Cow::Borrowed(_))));
        assert_eq!(len, N, "with_cow changed the length of the content");
        if i < N { assert_eq!(byte, buf[i], "with_cow changed the bytes handed to the loader"); }
        assert_eq!(borrowed, borrowed_expected);
        kani::cover!(how == 2);
    }

    // @h name=c03_content_n0 tier=quick flags=-Z+unstable-options+--cbmc-args+--memory-leak-check
    #[kani::proof]
    #[kani::unwind(5)]
    fn c03_content_n0() { content_case::<0>(); }
    // @h name=c03_content_n1 tier=quick flags=-Z+unstable-options+--cbmc-args+--memory-leak-check
    #[kani::proof]
    #[kani::unwind(5)]
    fn c03_content_n1() { content_case::<1>(); }
    // @h name=c03_content_n3 tier=quick flags=-Z+unstable-options+--cbmc-args+--memory-leak-check
    #[kani::proof]
    #[kani::unwind(5)]
    fn c03_content_n3() { content_case::<3>(); }
}

// C03 — the Source forwarding impls (&S, Box<S>, Arc<S>) hand id and extension through unchanged.
#[cfg(kani)]
mod verif_c03_wrappers {
    use crate::source::{DirEntry, FileContent, Source};
    use std::cell::Cell;
    use std::io;

    struct Rec { read_ok: Cell<bool>, dir_ok: Cell<bool>, ex_ok: Cell<bool> }
    impl Source for Rec {
        fn read(&self, id: &str, ext: &str) -> io::Result<FileContent> { self.read_ok.set(id == "ab" && ext == "x"); Err(io::Error::from(io::ErrorKind::NotFound)) }
        fn read_dir(&self, id: &str, _f: &mut dyn FnMut(DirEntry)) -> io::Result<()> { self.dir_ok.set(id == "ab"); Ok(()) }
        fn exists(&self, e: DirEntry) -> bool { self.ex_ok.set(e == DirEntry::File("ab", "x")); true }
    }
    fn rec() -> Rec { Rec { read_ok: Cell::new(false), dir_ok: Cell::new(false), ex_ok: Cell::new(false) } }
    fn drive<S: Source>(s: &S) {
        let r = s.read("ab", "x");
        std::mem::forget(r);
        let _ = s.read_dir("ab", &mut |_| ());
        assert!(s.exists(DirEntry::File("ab", "x")));
    }
    fn check(r: &Rec) {
        assert!(r.read_ok.get(), "a Source wrapper changed the id / extension of a read");
        assert!(r.dir_ok.get() && r.ex_ok.get(), "a Source wrapper changed the argument of read_dir / exists");
    }

    // @h name=c03_source_wrappers_forward tier=quick timeout=600
    #[kani::proof]
    #[kani::unwind(5)]
    fn c03_source_wrappers_forward() {
        let which: u8 = kani::any();
        kani::assume(which < 3);
        match which {
            0 => { let r = rec(); drive(&&r); check(&r); }
            1 => { let b = Box::new(rec()); drive(&b); check(&b); std::mem::forget(b); }
            _ => { let a = std::sync::Arc::new(rec()); drive(&a); check(&a); std::mem::forget(a); }
        }
        kani::cover!(which == 2);
    }
}
