// C03 (a) — ErrorKind::or precedence: Conversion > Io(other) > Io(NotFound) > NoDefaultValue,
// and the fold over an extension list keeps an error of maximal rank.
#[cfg(kani)]
mod verif_c03_error {
    use super::*;

    #[derive(Debug)]
    struct Conv(u8);
    impl fmt::Display for Conv { fn fmt(&self, f: &mut fmt::Formatter<'_>) -> fmt::Result { f.write_str("conv") } }
    impl std::error::Error for Conv {}

    fn mk(kind: u8, tag: u8) -> ErrorKind {
        match kind {
            0 => ErrorKind::NoDefaultValue,
            1 => ErrorKind::Io(io::Error::from(io::ErrorKind::NotFound)),
            2 => ErrorKind::Io(io::Error::from(if tag & 1 == 0 { io::ErrorKind::PermissionDenied } else { io::ErrorKind::InvalidData })),
            _ => ErrorKind::Conversion(Box::new(Conv(tag))),
        }
    }
    fn rank(e: &ErrorKind) -> u8 {
        match e {
            ErrorKind::NoDefaultValue => 0,
            ErrorKind::Io(err) if err.kind() == io::ErrorKind::NotFound => 1,
            ErrorKind::Io(_) => 2,
            ErrorKind::Conversion(_) => 3,
        }
    }

    // what a loader returns is a decoding error whatever its concrete type (also when the loader itself failed
    // with an io::Error, e.g. UnexpectedEof from read_exact), what a source returns is an I/O error
    // @h name=c03_from_conversions tier=quick timeout=300
    #[kani::proof]
    #[kani::unwind(4)]
    fn c03_from_conversions() {
        let which: u8 = kani::any();
        kani::assume(which < 3);
        let boxed: BoxedError = match which {
            0 => Box::new(Conv(1)),
            1 => Box::new(io::Error::from(io::ErrorKind::UnexpectedEof)),
            _ => Box::new(io::Error::from(io::ErrorKind::NotFound)),
        };
        let k = ErrorKind::from(boxed);
        assert!(matches!(k, ErrorKind::Conversion(_)), "a loader error was not classified as a decoding error");
        let k2 = ErrorKind::from(io::Error::from(io::ErrorKind::PermissionDenied));
        assert!(matches!(k2, ErrorKind::Io(_)), "a source error was not classified as an I/O error");
        kani::cover!(which == 1);
        std::mem::forget(k); std::mem::forget(k2);
    }

    // @h name=c03_or_rank tier=quick
    #[kani::proof]
    #[kani::unwind(4)]
    fn c03_or_rank() {
        let (k1, k2): (u8, u8) = (kani::any(), kani::any());
        kani::assume(k1 < 4 && k2 < 4);
        let (a, b) = (mk(k1, 1), mk(k2, 2));
        let (ra, rb) = (rank(&a), rank(&b));
        let r = a.or(b);
        assert_eq!(rank(&r), if ra > rb { ra } else { rb });
        kani::cover!(k1 == 1 && k2 == 2);
        kani::cover!(k1 == 3 && k2 == 3);
        std::mem::forget(r);
    }

    // the fold `error = err.or(error)` of load_from_source over <= 3 extensions
    // @h name=c03_or_fold3 tier=quick
    #[kani::proof]
    #[kani::unwind(5)]
    fn c03_or_fold3() {
        let ks: [u8; 3] = kani::any();
        let n: usize = kani::any();
        kani::assume(n <= 3);
        let mut error = ErrorKind::NoDefaultValue;
        let mut best = 0u8;
        let mut i = 0;
        while i < n {
            kani::assume(ks[i] >= 1 && ks[i] < 4);
            let e = mk(ks[i], i as u8);
            if rank(&e) > best { best = rank(&e); }
            error = e.or(error);
            i += 1;
        }
        assert_eq!(rank(&error), best);
        kani::cover!(n == 3 && best == 2);
        kani::cover!(n == 0);
        std::mem::forget(error);
    }

    // Error carries the id and the reason it was built from
    // @h name=c03_error_id_reason tier=quick
    #[kani::proof]
    #[kani::unwind(4)]
    fn c03_error_id_reason() {
        let t: u8 = kani::any();
        let e = Error::new(SharedString::from("ab"), Box::new(Conv(t)));
        assert_eq!(&**e.id(), "ab");
        assert!(e.reason().downcast_ref::<Conv>().map(|c| c.0) == Some(t));
        let wrapped = Error::new(SharedString::from("c"), Box::new(e));
        assert_eq!(&**wrapped.id(), "c");
        let inner = wrapped.reason().downcast_ref::<Error>().unwrap();
        assert_eq!(&**inner.id(), "ab");
        assert!(inner.reason().downcast_ref::<Conv>().map(|c| c.0) == Some(t));
        let back = wrapped.downcast::<Error>().ok().unwrap();
        assert_eq!(&**back.id(), "ab");
        std::mem::forget(back);
    }
}
