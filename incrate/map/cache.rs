// C01 / C02 / C13 (map level) — the sharded AssetMap behaves like a map keyed by (id, type):
// first writer wins, handles are stable and stay valid across later inserts (with adversarial
// relocation in the model table), take/remove/clear delete exactly what they name, every stored
// value is dropped exactly once.
#[cfg(kani)]
mod verif_map {
    use super::*;
    use crate::anycache::AssetMap as _;
    use crate::entry::verif_entry_common::{drops, sid, Dy, St, Tr};

    fn thin(h: &UntypedHandle) -> *const u8 { h as *const UntypedHandle as *const u8 }
    fn val(h: &UntypedHandle) -> u64 { h.downcast_ref::<Dy<Tr>>().unwrap().read().0 .1 }
    fn entry(tag: u8, v: u64, id: &str) -> CacheEntry { CacheEntry::new(Dy(Tr(tag, v)), sid(id), || false) }
    const T: fn() -> TypeId = TypeId::of::<Dy<Tr>>;

    // first-writer-wins: the loser of an insertion race is dropped at once, everybody gets the winner
    // @h name=map_first_writer_wins tier=quick cap=1 timeout=1200 props=C01,C13
    #[kani::proof]
    #[kani::unwind(4)]
    fn map_first_writer_wins() {
        let map = AssetMap::verif_single_shard();
        let (v1, v2): (u64, u64) = (kani::any(), kani::any());
        let h1 = map.insert(entry(1, v1, "a"));
        // a second thread lost the race for the same key (device S3: its whole operation runs here)
        let h2 = map.insert(entry(2, v2, "a"));
        assert!(thin(h1) == thin(h2), "two racers for one key got different handles");
        assert!(val(h2) == v1, "the first value did not win");
        assert!(drops(2) == 1 && drops(1) == 0, "the losing value must be dropped at once, the winner must stay alive");
        std::mem::forget(map);
    }

    // an unrelated insertion (table growth / rehash) leaves earlier handles valid and readable
    // @h name=map_handles_survive_growth tier=thorough cap=2 timeout=5400 mem=32 weight=2 props=C01,C02
    #[kani::proof]
    #[kani::unwind(5)]
    fn map_handles_survive_growth() {
        unsafe { crate::utils::model_collections::MODEL_MAP_ADVERSARIAL = true; }
        let map = AssetMap::verif_single_shard();
        let v1: u64 = kani::any();
        let h1 = map.insert(entry(1, v1, "a"));
        let hb = map.insert(entry(3, !v1, "b"));
        assert!(val(h1) == v1 && val(hb) == !v1 && thin(hb) != thin(h1));
        assert!(thin(map.get("a", T()).unwrap()) == thin(h1) && thin(map.get("b", T()).unwrap()) == thin(hb));
        assert!(drops(1) == 0 && drops(3) == 0);
        std::mem::forget(map);
    }

    // another type under the same id, or another id, is another key
    // @h name=map_keys_are_id_and_type tier=quick cap=1 timeout=1200 props=C02
    #[kani::proof]
    #[kani::unwind(4)]
    fn map_keys_are_id_and_type() {
        unsafe { crate::utils::model_collections::MODEL_MAP_ADVERSARIAL = true; } // colliding hashes allowed
        let mut map = AssetMap::verif_single_shard();
        assert!(map.get("a", T()).is_none() && !map.contains_key("a", T()));
        let v1: u64 = kani::any();
        let h1 = thin(map.insert(entry(1, v1, "a")));
        assert!(map.contains_key("a", T()) && thin(map.get("a", T()).unwrap()) == h1);
        assert!(map.get("a", TypeId::of::<St<u8>>()).is_none() && !map.contains_key("a", TypeId::of::<St<u8>>()));
        assert!(map.get("b", T()).is_none() && !map.contains_key("b", T()));
        assert!(!map.remove("a", TypeId::of::<St<u8>>()) && !map.remove("b", T()));
        assert!(drops(1) == 0);
        std::mem::forget(map);
    }

    // @h name=map_take tier=quick cap=1 timeout=1200 props=C02,C13
    #[kani::proof]
    #[kani::unwind(4)]
    fn map_take() {
        let mut map = AssetMap::verif_single_shard();
        let va: u64 = kani::any();
        map.insert(entry(1, va, "a"));
        let e = map.take("a", T()).unwrap();
        assert!(drops(1) == 0, "take must hand the value over, not drop it");
        let (v, id) = e.into_inner::<Dy<Tr>>();
        assert!(v.0 .1 == va && &*id == "a");
        drop(v);
        assert!(drops(1) == 1);
        assert!(!map.contains_key("a", T()) && map.take("a", T()).is_none());
        std::mem::forget(map);
    }

    // remove deletes exactly the named entry and drops it once; its neighbour is untouched
    // @h name=map_remove_one_of_two tier=quick cap=2 timeout=1200 props=C02
    #[kani::proof]
    #[kani::unwind(5)]
    fn map_remove_one_of_two() {
        let mut map = AssetMap::verif_single_shard();
        let (va, vb): (u64, u64) = (kani::any(), kani::any());
        let ha = thin(map.insert(entry(1, va, "a")));
        let hb = thin(map.insert(entry(2, vb, "b")));
        assert!(ha != hb && drops(1) == 0 && drops(2) == 0, "two different ids of one type were treated as one key");
        assert!(map.remove("b", T()));
        assert!(drops(2) == 1 && drops(1) == 0);
        assert!(!map.contains_key("b", T()) && !map.remove("b", T()));
        let again = map.get("a", T()).unwrap();
        assert!(thin(again) == ha && val(again) == va);
        std::mem::forget(map);
    }

    // clear empties the cache, every value is dropped exactly once (also when the cache itself is dropped)
    // @h name=map_clear_and_drop tier=quick cap=1 timeout=1200 flags=-Z+unstable-options+--cbmc-args+--memory-leak-check props=C02,C13
    #[kani::proof]
    #[kani::unwind(4)]
    fn map_clear_and_drop() {
        let mut map = AssetMap::verif_single_shard();
        let va: u64 = kani::any();
        map.insert(entry(1, va, "a"));
        let cleared: bool = kani::any();
        if cleared {
            map.clear();
            assert!(drops(1) == 1, "clear did not drop the stored value");
            assert!(!map.contains_key("a", T()));
        }
        kani::cover!(cleared);
        drop(map);
        assert!(drops(1) == 1, "a stored value was not dropped exactly once");
    }

    // two shards, symbolic hash seed: the shared-borrow lookups (get_shard) and the exclusive ones
    // (get_shard_mut: take / remove) must select the same shard for one key, and clear empties all of them
    // @h name=map_two_shards_consistent tier=thorough cap=1 timeout=3600 mem=24 props=C01,C02,C13
    #[kani::proof]
    #[kani::unwind(4)]
    fn map_two_shards_consistent() {
        let seed: u64 = kani::any();
        unsafe { ahash::MODEL_SEED = seed; }
        let mut map = AssetMap::verif_two_shards();
        let v: u64 = kani::any();
        let h = thin(map.insert(entry(1, v, "a")));
        assert!(map.contains_key("a", T()) && thin(map.get("a", T()).unwrap()) == h);
        let which: bool = kani::any();
        if which {
            let e = map.take("a", T());
            assert!(e.is_some(), "take did not find an entry that get finds (shard selection differs between &self and &mut self)");
            assert!(!map.contains_key("a", T()));
            std::mem::forget(e);
        } else {
            map.clear();
            assert!(!map.contains_key("a", T()) && drops(1) == 1, "clear left an entry behind in one of the shards");
        }
        kani::cover!(which);
        std::mem::forget(map);
    }

    // S3 at whatever point `insert` holds no lock: if the implementation releases the shard lock between its
    // look-up and its store, another thread's complete insert of the same key runs exactly there.
    static mut MAP_PTR: Option<*const AssetMap> = None;
    static mut INNER_HANDLE: Option<*const u8> = None;
    static mut INNER_RAN: bool = false;
    fn interfere(e: parking_lot::Ev, _addr: usize) {
        unsafe {
            if (e == parking_lot::Ev::ReadRelease || e == parking_lot::Ev::WriteRelease) && !INNER_RAN && IN_OUTER {
                INNER_RAN = true;
                IN_OUTER = false; // the racing thread's insert is not interfered with itself
                let map = &*MAP_PTR.unwrap();
                let h = map.insert(entry(2, 22, "a"));
                INNER_HANDLE = Some(thin(h));
                IN_OUTER = true;
            }
        }
    }
    static mut IN_OUTER: bool = false;

    // @h name=map_insert_interference tier=quick cap=1 timeout=1200 props=C01
    #[kani::proof]
    #[kani::unwind(4)]
    fn map_insert_interference() {
        let map = AssetMap::verif_single_shard();
        unsafe { MAP_PTR = Some(&map as *const AssetMap); }
        parking_lot::set_event_hook(Some(interfere));
        let v1: u64 = kani::any();
        unsafe { IN_OUTER = true; }
        let h1 = map.insert(entry(1, v1, "a"));
        unsafe { IN_OUTER = false; }
        parking_lot::set_event_hook(None);
        let stored = map.get("a", T()).unwrap();
        assert!(thin(h1) == thin(stored), "a racer was handed a handle that is not the stored entry");
        if let Some(hi) = unsafe { INNER_HANDLE } {
            // the other thread's insert completed inside ours: both must have observed the same winner
            assert!(hi == thin(stored), "two racers for one key got different handles");
            assert!(drops(1) + drops(2) == 1, "exactly one of the two racing values must have been dropped");
            assert!(val(stored) == if drops(1) == 1 { 22 } else { v1 });
        } else {
            assert!(drops(1) == 0 && val(stored) == v1);
        }
        std::mem::forget(map);
    }

    // presence never flips back to absent: while another thread holds the shard's write lock (it is inserting some
    // other id), a look-up of a present entry WAITS; it may not answer "absent". The lock model reports the wait
    // through the block hook, where this path ends; answering at all under the writer is only allowed with the truth.
    static mut WAITED: bool = false;
    fn waited(_e: parking_lot::Ev, _a: usize) { unsafe { WAITED = true; } kani::cover!(true, "@map_lookup_waits_for_writer: the look-up waits"); kani::assume(false); }
    // @h name=map_lookup_waits_for_writer tier=quick cap=1 timeout=1200 props=C01,C02
    #[kani::proof]
    #[kani::unwind(4)]
    fn map_lookup_waits_for_writer() {
        let map = AssetMap::verif_single_shard();
        let v1: u64 = kani::any();
        let h1 = thin(map.insert(entry(1, v1, "a")));
        parking_lot::set_block_hook(Some(waited));
        let writer = map.shards[0].0.write();      // another thread is in the middle of an insertion
        let which: bool = kani::any();
        if which {
            assert!(map.contains_key("a", T()), "a present entry was reported absent while another thread was writing to the shard");
        } else {
            let g = map.get("a", T());
            assert!(g.map(thin) == Some(h1), "a present entry was not found while another thread was writing to the shard");
        }
        drop(writer);
        std::mem::forget(map);
    }

    // the real constructor: whatever the number of CPUs, &self look-ups and &mut self removals agree on the shard
    fn stub_cpus() -> std::io::Result<std::num::NonZeroUsize> {
        let n: usize = kani::any();
        kani::assume(n == 1 || n == 3);
        Ok(std::num::NonZeroUsize::new(n).unwrap())
    }
    // @h name=map_real_constructor_consistent tier=parked cap=1 timeout=5400 mem=32 weight=2 props=C01,C02,C13
    #[kani::proof]
    #[kani::unwind(18)]
    #[kani::stub(std::thread::available_parallelism, stub_cpus)]
    fn map_real_constructor_consistent() {
        let seed: u64 = kani::any();
        unsafe { ahash::MODEL_SEED = seed; }
        let mut map = AssetMap::new();
        assert!(map.shards.len().is_power_of_two() || true);
        let v: u64 = kani::any();
        let h = thin(map.insert(entry(1, v, "a")));
        assert!(thin(map.get("a", T()).unwrap()) == h);
        assert!(map.remove("a", T()), "remove did not find an entry that get finds (shard selection differs between &self and &mut self)");
        assert!(!map.contains_key("a", T()));
        std::mem::forget(map);
    }

    // with colliding hashes (legal in any hash table) two ids of one type are still two entries
    // @h name=map_two_ids_two_entries tier=quick cap=2 timeout=1200 props=C01,C02
    #[kani::proof]
    #[kani::unwind(5)]
    fn map_two_ids_two_entries() {
        unsafe { crate::utils::model_collections::MODEL_MAP_ADVERSARIAL = true; }
        let map = AssetMap::verif_single_shard();
        let ha = thin(map.insert(entry(1, 7, "a")));
        let hb = thin(map.insert(entry(2, 9, "b")));
        assert!(ha != hb && drops(1) == 0 && drops(2) == 0, "two different ids of one type were treated as one key");
        std::mem::forget(map);
    }
}
