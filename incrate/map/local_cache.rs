// The single-threaded map must behave exactly like the sharded one (C02: observational equivalence).
#[cfg(kani)]
mod verif_local_map {
    use super::*;
    use crate::anycache::AssetMap as _;
    use crate::entry::verif_entry_common::{drops, sid, Dy, St, Tr};

    fn thin(h: &UntypedHandle) -> *const u8 { h as *const UntypedHandle as *const u8 }
    fn val(h: &UntypedHandle) -> u64 { h.downcast_ref::<Dy<Tr>>().unwrap().read().0 .1 }
    fn entry(tag: u8, v: u64, id: &str) -> CacheEntry { CacheEntry::new(Dy(Tr(tag, v)), sid(id), || false) }
    const T: fn() -> TypeId = TypeId::of::<Dy<Tr>>;

    // @h name=localmap_contract tier=parked cap=2 timeout=5400 mem=32 weight=2 props=C01,C02,C13
    #[kani::proof]
    #[kani::unwind(5)]
    fn localmap_contract() {
        unsafe { crate::utils::model_collections::MODEL_MAP_ADVERSARIAL = true; }
        let mut map = AssetMap::new();
        let (v1, v2): (u64, u64) = (kani::any(), kani::any());
        assert!(map.get("a", T()).is_none() && !map.contains_key("a", T()));
        let h1 = map.insert(entry(1, v1, "a"));
        let h2 = map.insert(entry(2, v2, "a"));
        assert!(thin(h1) == thin(h2) && val(h1) == v1 && drops(2) == 1 && drops(1) == 0);
        let hb = map.insert(entry(3, !v1, "b"));
        assert!(val(h1) == v1 && val(hb) == !v1);
        assert!(thin(map.get("a", T()).unwrap()) == thin(h1));
        assert!(map.get("a", TypeId::of::<St<u8>>()).is_none());
        let which: bool = kani::any();
        if which {
            let e = map.take("a", T()).unwrap();
            assert!(drops(1) == 0);
            drop(e);
            assert!(drops(1) == 1 && !map.contains_key("a", T()) && map.contains_key("b", T()) && !map.remove("a", T()));
        } else {
            map.clear();
            assert!(drops(1) == 1 && drops(3) == 1 && !map.contains_key("b", T()));
        }
        drop(map);
        assert!(drops(1) == 1 && drops(2) == 1 && drops(3) == 1);
    }

    // @h name=localmap_fww_take tier=quick cap=1 timeout=1200 props=C02,C01
    #[kani::proof]
    #[kani::unwind(4)]
    fn localmap_fww_take() {
        let mut map = AssetMap::new();
        let (v1, v2): (u64, u64) = (kani::any(), kani::any());
        let h1 = thin(map.insert(entry(1, v1, "a")));
        let h2 = map.insert(entry(2, v2, "a"));
        assert!(h1 == thin(h2) && val(h2) == v1 && drops(2) == 1 && drops(1) == 0);
        assert!(map.get("a", TypeId::of::<St<u8>>()).is_none() && map.get("b", T()).is_none());
        let e = map.take("a", T()).unwrap();
        assert!(drops(1) == 0);
        drop(e);
        assert!(drops(1) == 1 && !map.contains_key("a", T()));
        std::mem::forget(map);
    }
}
