// C10 (a, entry level) — an entry is rewritable (dynamic) iff its type is hot-reloaded AND the
// cache has a reloader; static entries are never changed by `write`; `get` is only possible on them.
#[cfg(kani)]
mod verif_c10_entry {
    use super::verif_entry_common::*;
    use super::*;

    struct NH(u8);
    impl crate::Compound for NH {
        fn load(_: crate::AnyCache, _: &SharedString) -> Result<Self, crate::BoxedError> { Err("never".into()) }
        const HOT_RELOADED: bool = false;
    }
    mod u8x {
        pub struct A;
        impl crate::Asset for A { type Loader = crate::loader::LoadFrom<crate::SharedBytes, crate::loader::BytesLoader>; }
        impl From<crate::SharedBytes> for A { fn from(_: crate::SharedBytes) -> A { A } }
    }

    // @h name=c10_entry_kind tier=quick
    #[kani::proof]
    #[kani::unwind(4)]
    fn c10_entry_kind() {
        let mutable: bool = kani::any();
        let v: u64 = kani::any();
        // reloadable type
        let e1 = CacheEntry::new(Dy(v), sid("k"), || mutable);
        assert_eq!(e1.inner().inner.dynamic.is_some(), mutable);
        // type that opts out: never dynamic, the `mutable` callback result is irrelevant
        let e2 = CacheEntry::new(St(v), sid("k"), || mutable);
        assert!(e2.inner().inner.dynamic.is_none());
        let h2: &Handle<St<u64>> = e2.inner().downcast_ref().unwrap();
        assert_eq!(h2.inner.get().0, v);
        assert_eq!(h2.last_reload_id(), ReloadId::NEVER);
        // crate-provided Storable types are static as well
        let e3 = CacheEntry::new(v, sid("k"), || true);
        assert!(e3.inner().inner.dynamic.is_none());
        let h3: &Handle<u64> = e3.inner().downcast_ref().unwrap();
        assert_eq!(*h3.get(), v);
        // wrappers inherit the opt-out of what they wrap
        assert!(!<std::sync::Arc<NH> as Storable>::HOT_RELOADED && <std::sync::Arc<Dy<u8>> as Storable>::HOT_RELOADED);
        assert!(!<crate::OnceInitCell<NH, u8> as Storable>::HOT_RELOADED && <crate::OnceInitCell<Dy<u8>, u8> as Storable>::HOT_RELOADED);
        assert!(!<crate::OnceInitCell<Option<NH>, u8> as Storable>::HOT_RELOADED);
        assert!(<crate::Directory<u8x::A> as Storable>::HOT_RELOADED);
        let e4 = CacheEntry::new(std::sync::Arc::new(NH(1)), sid("k"), || true);
        assert!(e4.inner().inner.dynamic.is_none(), "Arc<T> of a type that opts out of hot-reloading is rewritable");
        kani::cover!(mutable);
        kani::cover!(!mutable);
        std::mem::forget((e1, e2, e3, e4));
    }

    // `write` on a static entry must not change it: it panics before touching anything.
    // @h name=c10_write_static_refused tier=quick kind=must_panic expect=wrong+handle+type
    #[kani::proof]
    #[kani::unwind(4)]
    fn c10_write_static_refused() {
        let v: u64 = kani::any();
        let which: bool = kani::any();
        if which {
            let e = CacheEntry::new(Dy(v), sid("k"), || false);
            e.inner().write(CacheEntry::new(Dy(!v), sid("k"), || true));
        } else {
            let e = CacheEntry::new(St(v), sid("k"), || true);
            e.inner().write(CacheEntry::new(St(!v), sid("k"), || true));
        }
        assert!(false, "REWRITTEN: write on a static entry returned");
    }

    // `get` on a dynamic entry panics (a reference handed out by `get` could otherwise be invalidated)
    // @h name=c10_get_dynamic_refused tier=quick kind=must_panic expect=but+do+not+disable+hot-reloading
    #[kani::proof]
    #[kani::unwind(4)]
    fn c10_get_dynamic_refused() {
        let e = CacheEntry::new(Dy(1u8), sid("k"), || true);
        let h: &Handle<Dy<u8>> = e.inner().downcast_ref().unwrap();
        let _r = h.inner.get();
        assert!(false, "get returned a plain reference into a rewritable entry");
    }
}
