// C10 (b) — what is registered with the reloader, and what a reload of a registered key rewrites.
// Decomposition (the dependency graph and the thread are decided separately, C05/C08): a key is
// "registered" iff an AddAsset message for it was sent; for a registered key with a type, an event
// on something it read makes the reloader call `reload_untyped(id, typ)` on the cache (DepsGraph::reload).
#[cfg(kani)]
mod verif_c10_hist {
    use super::*;
    use crate::{AnyCache, AssetCache, BoxedError, Compound};

    #[derive(Debug)]
    struct Plain;
    impl fmt::Display for Plain { fn fmt(&self, f: &mut fmt::Formatter<'_>) -> fmt::Result { f.write_str("plain") } }
    impl std::error::Error for Plain {}

    static mut SOURCE_VALUE: u8 = 1;
    static mut SOURCE_BROKEN: bool = false;
    /// reloadable asset whose content is the ghost "file" SOURCE_VALUE
    struct F(u8);
    impl Compound for F {
        fn load(cache: AnyCache, id: &SharedString) -> Result<Self, BoxedError> {
            let _ = cache.raw_source().read(id, "x"); // recorded as a file dependency
            if unsafe { SOURCE_BROKEN } { Err(Box::new(Plain)) } else { Ok(F(unsafe { SOURCE_VALUE })) }
        }
    }
    /// same, but the type opts out of hot-reloading
    struct N(u8);
    impl Compound for N {
        fn load(_cache: AnyCache, _id: &SharedString) -> Result<Self, BoxedError> { Ok(N(unsafe { SOURCE_VALUE })) }
        const HOT_RELOADED: bool = false;
    }

    fn mk() -> (AssetCache<crate::source::Empty>, Receiver<CacheMessage>) {
        let (r, rx) = HotReloader::verif_with_receiver();
        (AssetCache::verif_new(crate::source::Empty, Some(r)), rx)
    }
    fn registered_k(rx: &Receiver<CacheMessage>) -> bool {
        match rx.try_recv() {
            Ok(CacheMessage::AddAsset(infos)) => { let ok = infos.verif_key_id_is("k"); std::mem::forget(infos); ok }
            Ok(_) => { assert!(false, "unexpected message"); false }
            Err(_) => false,
        }
    }

    // only successful loads of hot-reloaded types register; get_or_insert / get_cached / contains never do
    fn registration(which: u8) {
        let (cache, rx) = mk();
        match which {
            0 => {
                unsafe { SOURCE_BROKEN = true; }
                let r = cache.load::<F>("k");
                assert!(r.is_err());
                std::mem::forget(r);
                assert!(!registered_k(&rx), "a FAILED load was registered with the reloader: a later get_or_insert under this key would be rewritten");
                assert!(!cache.contains::<F>("k"));
            }
            1 => {
                let h = cache.load::<F>("k").ok().unwrap();
                assert!(h.read().0 == 1);
                assert!(registered_k(&rx), "a successful load of a reloadable asset was not registered");
            }
            2 => {
                let h = cache.load::<N>("k").ok().unwrap();
                assert!(h.read().0 == 1 && h.inner_is_static());
                assert!(!registered_k(&rx), "a type that opts out of hot-reloading was registered");
            }
            3 => {
                let h = cache.get_or_insert::<F>("k", F(100));
                assert!(h.read().0 == 100);
                assert!(cache.get_cached::<F>("k").is_some() && cache.contains::<F>("k"));
                assert!(!registered_k(&rx), "get_or_insert registered its key with the reloader");
            }
            _ => {
                let h = cache.get_or_insert::<N>("k", N(100));
                assert!(h.read().0 == 100 && h.inner_is_static());
                assert!(!registered_k(&rx));
            }
        }
        std::mem::forget((cache, rx));
    }
    // @h name=c10_reg_failed_load tier=quick cap=1 timeout=300 role=failed+load+is+not+registered
    #[kani::proof]
    #[kani::unwind(6)]
    fn c10_reg_failed_load() { registration(0); kani::cover!(true); }
    // @h name=c10_reg_ok_load tier=parked cap=1 timeout=5400 mem=32 weight=2 role=successful+load+is+registered
    #[kani::proof]
    #[kani::unwind(6)]
    fn c10_reg_ok_load() { registration(1); kani::cover!(true); }
    // @h name=c10_reg_optout_load tier=parked cap=1 timeout=5400 mem=32 weight=2 role=opt-out+type+is+not+registered
    #[kani::proof]
    #[kani::unwind(6)]
    fn c10_reg_optout_load() { registration(2); kani::cover!(true); }
    // @h name=c10_reg_get_or_insert tier=quick cap=1 timeout=300 role=get_or_insert+is+not+registered
    #[kani::proof]
    #[kani::unwind(6)]
    fn c10_reg_get_or_insert() { registration(3); registration(4); kani::cover!(true); }

    /// the reloader's action for a registered key whose recorded entries were notified
    fn reload_pass(cache: &AssetCache<crate::source::Empty>, registered: bool) {
        if registered {
            let deps = cache.as_any_cache().reload_untyped(SharedString::from("k"), crate::key::Type::of::<F>());
            std::mem::forget(deps);
        }
    }

    // histories ending in get_or_insert; afterwards the key's file is edited and notified
    fn history(h: u8) {
        let (mut cache, rx) = mk();
        let mut registered = false;
        match h {
            0 => {}
            1 => { let v = cache.load_owned::<F>("k").ok().unwrap(); assert!(v.0 == 1); registered |= registered_k(&rx); }
            2 => { let _ = cache.load::<F>("k").ok().unwrap(); registered |= registered_k(&rx); assert!(cache.remove::<F>("k")); }
            3 => { let _ = cache.load::<F>("k").ok().unwrap(); registered |= registered_k(&rx); cache.clear(); let _ = rx.try_recv(); }
            _ => { let _ = cache.load::<F>("k").ok().unwrap(); registered |= registered_k(&rx); assert!(cache.take::<F>("k").map(|f| f.0) == Some(1)); }
        }
        let handle = cache.get_or_insert::<F>("k", F(100));
        let id0 = handle.last_reload_id();
        unsafe { SOURCE_VALUE = 2; } // the edit
        reload_pass(&cache, registered);
        assert!(handle.read().0 == 100, "REWRITTEN: a value stored with get_or_insert was modified by hot-reloading");
        assert!(handle.last_reload_id() == id0 && id0 == crate::ReloadId::NEVER);
        std::mem::forget((cache, rx));
    }

    // @h name=c10_hist_fresh tier=quick cap=1 timeout=300 role=history+get_or_insert;edit
    #[kani::proof]
    #[kani::unwind(6)]
    fn c10_hist_fresh() { history(0); kani::cover!(true); }
    // @h name=c10_hist_load_owned tier=parked cap=1 timeout=5400 mem=32 weight=2 role=history+load_owned;get_or_insert;edit
    #[kani::proof]
    #[kani::unwind(6)]
    fn c10_hist_load_owned() { history(1); kani::cover!(true); }
    // @h name=c10_hist_load_remove tier=parked cap=1 timeout=5400 mem=32 weight=2 role=history+load;remove;get_or_insert;edit
    #[kani::proof]
    #[kani::unwind(6)]
    fn c10_hist_load_remove() { history(2); kani::cover!(true); }
    // @h name=c10_hist_load_clear tier=parked cap=1 timeout=5400 mem=32 weight=2 role=history+load;clear;get_or_insert;edit
    #[kani::proof]
    #[kani::unwind(6)]
    fn c10_hist_load_clear() { history(3); kani::cover!(true); }
    // @h name=c10_hist_load_take tier=parked cap=1 timeout=5400 mem=32 weight=2 role=history+load;take;get_or_insert;edit
    #[kani::proof]
    #[kani::unwind(6)]
    fn c10_hist_load_take() { history(4); kani::cover!(true); }

    // One-step form of the history clause: whatever earlier history registered the key with the reloader
    // (load_owned, or load followed by remove / take / clear: see the thorough c10_hist_* harnesses and
    // replay/native c10_history), the reloader's action on a notified registered key is
    // `reload_untyped(id, typ)`; it must leave a value stored with get_or_insert alone.
    // @h name=c10_goi_survives_reload_of_registered_key tier=parked cap=1 timeout=7200 mem=32 weight=2 role=get_or_insert+value+vs+reload+of+a+key+registered+by+earlier+history
    #[kani::proof]
    #[kani::unwind(6)]
    fn c10_goi_survives_reload_of_registered_key() {
        let (cache, rx) = mk();
        let handle = cache.get_or_insert::<F>("k", F(100));
        let id0 = handle.last_reload_id();
        unsafe { SOURCE_VALUE = 2; }
        reload_pass(&cache, true);
        assert!(handle.read().0 == 100, "REWRITTEN: a value stored with get_or_insert was modified by hot-reloading");
        assert!(handle.last_reload_id() == id0 && id0 == crate::ReloadId::NEVER);
        kani::cover!(true);
        std::mem::forget((cache, rx));
    }

    // A value stored with get_or_insert must live in an entry the reloader cannot rewrite: `write` refuses
    // static entries (c10_write_static_refused), so a static entry is safe in EVERY history. A failure of
    // this harness is reported only if the native reproducer (replay/native c10_history: load_owned /
    // load;remove / load;clear followed by get_or_insert, an edit and hot_reload on the real crate with real
    // threads) shows a rewritten value.
    // @h name=c10_goi_entry_not_rewritable tier=quick cap=1 timeout=600 native=c10_history:value=X\((?!100\)) role=get_or_insert+in+a+cache+with+a+reloader
    #[kani::proof]
    #[kani::unwind(6)]
    fn c10_goi_entry_not_rewritable() {
        let (cache, rx) = mk();
        let h = cache.get_or_insert::<F>("k", F(100));
        assert!(h.read().0 == 100);
        assert!(h.inner_is_static(), "REWRITABLE: a value stored with get_or_insert sits in an entry that hot-reloading can rewrite (it is rewritten as soon as its key is known to the reloader)");
        assert!(!registered_k(&rx));
        kani::cover!(true);
        std::mem::forget((cache, rx));
    }

    // (HotReloader::make cannot be harnessed: any harness that statically reaches HotReloader::start ->
    //  thread::Builder::spawn makes kani-compiler 0.68 panic (intrinsics.rs:243), even with spawn stubbed.)
}
