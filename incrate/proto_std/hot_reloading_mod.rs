// C08 with the STD lock build (feature parking_lot off): the crate's own wait_while wrapper around
// std::sync::{Mutex, Condvar}. std::sync::Condvar::{wait, notify_all} are stubbed (they end in futex
// syscalls); a std condition variable may wake spuriously and notify_all wakes every waiter, so a waiter
// must re-check its condition after every wake-up.
#[cfg(kani)]
mod verif_proto_std {
    use super::*;
    use std::sync::{LockResult, MutexGuard};

    static mut WAITS: usize = 0;
    static mut NOTIFIES: usize = 0;

    fn stub_wait<'a, T>(_cv: &std::sync::Condvar, guard: MutexGuard<'a, T>) -> LockResult<MutexGuard<'a, T>> {
        unsafe {
            WAITS += 1;
            if WAITS >= 2 {
                kani::cover!(true, "@stdlock_woken_waiter_rechecks: waiter went back to sleep after a wake-up that was not for it");
                kani::assume(false); // parked for good: end of this path
            }
        }
        // first wake-up: spurious, or a notify_all meant for another caller; nothing changed for this waiter
        Ok(guard)
    }
    fn stub_notify_all(_cv: &std::sync::Condvar) { unsafe { NOTIFIES += 1; } }
    // waking a single waiter is not enough: callers and the reloader wait on the same condition variable
    fn stub_notify_one(_cv: &std::sync::Condvar) { unsafe { NOTIFY_ONES += 1; } }
    static mut NOTIFY_ONES: usize = 0;

    // @h name=stdlock_woken_waiter_rechecks tier=quick feat=std timeout=600 props=C08 role=std+locks:+a+woken+waiter+re-checks+its+condition
    #[kani::proof]
    #[kani::unwind(4)]
    #[kani::stub(std::sync::Condvar::wait, stub_wait)]
    #[kani::stub(std::sync::Condvar::notify_all, stub_notify_all)]
    fn stdlock_woken_waiter_rechecks() {
        let answers = Answers::default();
        let tok: usize = kani::any();
        let slot: Option<usize> = kani::any();
        kani::assume(slot.is_some() && slot != Some(tok));
        *answers.current_token.lock() = slot;
        if kani::any() { answers.wait_for_answer(tok); } else { answers.notify(tok); }
        assert!(false, "a waiter woken by a notification meant for somebody else (or spuriously) went ahead without re-checking its condition");
    }

    // @h name=stdlock_monitor_discipline tier=quick feat=std timeout=600 props=C08 role=std+locks:+emptying+or+filling+the+slot+notifies
    #[kani::proof]
    #[kani::unwind(4)]
    #[kani::stub(std::sync::Condvar::wait, stub_wait)]
    #[kani::stub(std::sync::Condvar::notify_all, stub_notify_all)]
    #[kani::stub(std::sync::Condvar::notify_one, stub_notify_one)]
    fn stdlock_monitor_discipline() {
        let answers = Answers::default();
        let tok: usize = kani::any();
        if kani::any() {
            *answers.current_token.lock() = Some(tok);
            answers.wait_for_answer(tok);
            assert!(*answers.current_token.lock() == None && unsafe { WAITS == 0 });
            assert!(unsafe { NOTIFIES } >= 1, "LOST WAKE-UP: wait_for_answer emptied the answer slot without notify_all");
        } else {
            answers.notify(tok);
            assert!(*answers.current_token.lock() == Some(tok) && unsafe { WAITS == 0 });
            assert!(unsafe { NOTIFIES } >= 1, "notify published a token without waking the waiters");
        }
        kani::cover!(true);
    }
}
