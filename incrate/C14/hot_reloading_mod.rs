// C14 (cache level, without a successful cached load) — what the cache front-end records while a load runs:
// every source read / directory read is recorded BEFORE it is attempted (a missing file that is created
// later must trigger a reload), look-ups of reloadable assets are recorded even when absent, and the
// nested load of a type that opted out of hot-reloading records into the OUTER asset's record.
#[cfg(kani)]
mod verif_c14_cache {
    use super::*;
    use crate::anycache::Cache;
    use crate::{AnyCache, AssetCache, BoxedError, Compound};

    fn fdep(id: &str, ext: &str) -> Dependency { Dependency::File(SharedString::from(id), SharedString::from(ext)) }

    struct R(u8);
    impl Compound for R { fn load(_: AnyCache, _: &SharedString) -> Result<Self, BoxedError> { Ok(R(1)) } }

    // @h name=c14_failed_reads_are_recorded tier=quick cap=3 timeout=600 props=C14,C09
    #[kani::proof]
    #[kani::unwind(6)]
    fn c14_failed_reads_are_recorded() {
        let (r, rx) = HotReloader::verif_with_receiver();
        let cache = AssetCache::verif_new(crate::source::Empty, Some(r));
        let reloader = cache.reloader.as_ref().unwrap();
        let (ok, deps) = records::record(reloader, || {
            let a = Cache::read(&cache, "k", "x").is_err();      // the file does not exist (yet)
            let b = Cache::read_dir(&cache, "d", &mut |_| ()).is_err();
            let c = cache.get_cached::<R>("m").is_none();          // a reloadable asset that is not cached (yet)
            a && b && c
        });
        assert!(ok);
        assert!(deps.verif_contains(&fdep("k", "x")), "a read that failed was not recorded: creating the file later will not reload the asset");
        assert!(deps.verif_contains(&Dependency::Directory(SharedString::from("d"))), "a directory read that failed was not recorded");
        assert!(deps.verif_contains(&Dependency::Asset(crate::utils::OwnedKey::new::<R>(SharedString::from("m")))), "a look-up of an absent reloadable asset was not recorded");
        assert_eq!(deps.verif_len(), 3);
        kani::cover!(true);
        std::mem::forget((deps, cache, rx));
    }

    /// a type that opted out of hot-reloading: its load reads a file
    struct NR(u8);
    impl Compound for NR {
        fn load(cache: AnyCache, id: &SharedString) -> Result<Self, BoxedError> { let _ = cache.raw_source().read(id, "y"); Ok(NR(2)) }
        const HOT_RELOADED: bool = false;
    }

    // @h name=c14_nested_optout_records_into_outer tier=quick cap=2 timeout=900 props=C14
    #[kani::proof]
    #[kani::unwind(6)]
    fn c14_nested_optout_records_into_outer() {
        let (r, rx) = HotReloader::verif_with_receiver();
        let cache = AssetCache::verif_new(crate::source::Empty, Some(r));
        let reloader = cache.reloader.as_ref().unwrap();
        // the outer asset's load performs an owned load of the opted-out type
        let (res, deps) = records::record(reloader, || crate::asset::load_and_record(cache.as_any_cache(), SharedString::from("n"), crate::key::Type::of::<NR>()));
        assert!(res.is_ok());
        assert!(deps.verif_contains(&fdep("n", "y")), "reads made by the nested load of a non-reloadable type are lost for the outer asset");
        assert!(rx.try_recv().is_err(), "a type that opted out of hot-reloading was registered with the reloader");
        kani::cover!(true);
        std::mem::forget((res, deps, cache, rx));
    }

    // no_record entered through ANOTHER cache (one without a reloader) still suspends the recording of the
    // asset that is loading: recording is per thread, not per cache
    // @h name=c14_no_record_through_other_cache tier=quick cap=2 timeout=600 props=C14
    #[kani::proof]
    #[kani::unwind(6)]
    fn c14_no_record_through_other_cache() {
        let (r, rx) = HotReloader::verif_with_receiver();
        let cache = AssetCache::verif_new(crate::source::Empty, Some(r));
        let plain = AssetCache::verif_new(crate::source::Empty, None);
        let reloader = cache.reloader.as_ref().unwrap();
        let which: bool = kani::any();
        let ((), deps) = records::record(reloader, || {
            let body = || { let _ = Cache::read(&cache, "k", "x"); };
            if which { plain.no_record(body) } else { plain.as_any_cache().no_record(body) }
            let _ = Cache::read(&cache, "m", "x"); // recording resumes afterwards
        });
        assert!(!deps.verif_contains(&fdep("k", "x")), "a read made inside no_record was recorded");
        assert!(deps.verif_contains(&fdep("m", "x")), "recording did not resume after no_record");
        kani::cover!(which);
        kani::cover!(!which);
        std::mem::forget((deps, cache, plain, rx));
    }
}
