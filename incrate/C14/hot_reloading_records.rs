// C14 (kernel) — dependency recording is attributed to the innermost active record of the same
// reloader, suspended by no_record, and restored after every block (E1, Kani).
#[cfg(kani)]
mod verif_c14 {
    use super::*;
    use crate::SharedString;

    fn mk_reloader() -> HotReloader { HotReloader::verif_new() }

    #[derive(Clone, Copy, PartialEq)]
    enum Blk { Rec1, Rec2, NoRec }
    fn any_blk() -> Blk { let k: u8 = kani::any(); kani::assume(k < 3); match k { 0 => Blk::Rec1, 1 => Blk::Rec2, _ => Blk::NoRec } }

    fn fdep(c: &str) -> Dependency { Dependency::File(SharedString::from(c), SharedString::from("x")) }

    struct Ctx<'a> { r1: &'a HotReloader, r2: &'a HotReloader }
    impl<'a> Ctx<'a> {
        fn r(&self, two: bool) -> &'a HotReloader { if two { self.r2 } else { self.r1 } }
        /// Runs `f` inside the block kind `b`; returns what the block recorded (None for no_record).
        fn block<T>(&self, b: Blk, f: impl FnOnce() -> T) -> (T, Option<Dependencies>) {
            match b {
                Blk::Rec1 => { let (t, d) = record(self.r1, f); (t, Some(d)) }
                Blk::Rec2 => { let (t, d) = record(self.r2, f); (t, Some(d)) }
                Blk::NoRec => (no_record(f), None),
            }
        }
    }

    /// where should a read issued with reloader `two` at nesting `stack[..n]` land? index of the
    /// record block, or None
    fn expected(stack: &[Blk], n: usize, two: bool) -> Option<usize> {
        if n == 0 { return None; }
        match stack[n - 1] {
            Blk::NoRec => None,
            Blk::Rec1 => if !two { Some(n - 1) } else { None },
            Blk::Rec2 => if two { Some(n - 1) } else { None },
        }
    }

    fn has(d: &Option<Dependencies>, c: &str) -> bool { match d { Some(d) => d.verif_contains(&fdep(c)), None => false } }

    // @h name=c14_nesting_depth3 tier=thorough timeout=3600 cap=3 props=C14
    #[kani::proof]
    #[kani::unwind(7)]
    fn c14_nesting_depth3() {
        let (r1, r2) = (mk_reloader(), mk_reloader());
        let cx = Ctx { r1: &r1, r2: &r2 };
        let st = [any_blk(), any_blk(), any_blk()];
        // which reloader issues each of the five reads a (lvl1 before), b (lvl2 before), c (lvl3), d (lvl2 after), e (lvl1 after)
        let who: [bool; 5] = kani::any();
        assert!(RECORDING.with(|r| r.get().is_none()));
        let ((), d1) = cx.block(st[0], || {
            add_file_record(cx.r(who[0]), "a", "x");
            let ((), d2) = cx.block(st[1], || {
                add_file_record(cx.r(who[1]), "b", "x");
                let ((), d3) = cx.block(st[2], || {
                    add_file_record(cx.r(who[2]), "c", "x");
                });
                // recording resumes in the level-2 block after the nested block ended
                add_file_record(cx.r(who[3]), "d", "x");
                D3.with(|s| s.set(Some(Box::into_raw(Box::new(d3)))));
            });
            add_file_record(cx.r(who[4]), "e", "x");
            D2.with(|s| s.set(Some(Box::into_raw(Box::new(d2)))));
        });
        let d2 = unsafe { *Box::from_raw(D2.with(|s| s.get()).unwrap()) };
        let d3 = unsafe { *Box::from_raw(D3.with(|s| s.get()).unwrap()) };
        // after the outermost block the thread records nothing again
        assert!(RECORDING.with(|r| r.get().is_none()), "the recording cell was not restored");
        let ds = [d1, d2, d3];
        let names = ["a", "b", "c", "d", "e"];
        let depth = [1usize, 2, 3, 2, 1];
        let mut j = 0;
        while j < 5 {
            let want = expected(&st, depth[j], who[j]);
            let mut i = 0;
            while i < 3 {
                assert_eq!(has(&ds[i], names[j]), want == Some(i), "a read was attributed to the wrong record (or lost / duplicated)");
                i += 1;
            }
            j += 1;
        }
        kani::cover!(st[0] == Blk::Rec1 && st[1] == Blk::NoRec && st[2] == Blk::Rec1 && !who[2]);
        kani::cover!(st[0] == Blk::Rec1 && st[1] == Blk::Rec2 && who[3] && !who[4]);
        std::mem::forget((ds, r1, r2));
    }
    thread_local! {
        static D2: Cell<Option<*mut Option<Dependencies>>> = const { Cell::new(None) };
        static D3: Cell<Option<*mut Option<Dependencies>>> = const { Cell::new(None) };
    }

    // @h name=c14_nesting_depth2 tier=quick timeout=600 cap=2 props=C14
    #[kani::proof]
    #[kani::unwind(5)]
    fn c14_nesting_depth2() {
        let (r1, r2) = (mk_reloader(), mk_reloader());
        let cx = Ctx { r1: &r1, r2: &r2 };
        let st = [any_blk(), any_blk(), Blk::NoRec];
        let (w0, w1, w2): (bool, bool, bool) = (kani::any(), kani::any(), kani::any());
        let ((), d1) = cx.block(st[0], || {
            add_file_record(cx.r(w0), "a", "x");
            let ((), d2) = cx.block(st[1], || {
                add_file_record(cx.r(w1), "b", "x");
            });
            // recording resumes in the outer block after the nested one ended
            add_file_record(cx.r(w2), "c", "x");
            D2.with(|s| s.set(Some(Box::into_raw(Box::new(d2)))));
        });
        let d2 = unsafe { *Box::from_raw(D2.with(|s| s.get()).unwrap()) };
        assert!(RECORDING.with(|r| r.get().is_none()), "the recording cell was not restored");
        let e_a = expected(&st, 1, w0);
        let e_b = expected(&st, 2, w1);
        let e_c = expected(&st, 1, w2);
        assert_eq!(has(&d1, "a"), e_a == Some(0), "read a misattributed");
        assert_eq!(has(&d2, "a"), false, "read a leaked into the nested record");
        assert_eq!(has(&d1, "b"), false, "a nested read was attributed to the outer record");
        assert_eq!(has(&d2, "b"), e_b == Some(1), "read b misattributed");
        assert_eq!(has(&d1, "c"), e_c == Some(0), "recording did not resume correctly after the nested block");
        assert_eq!(has(&d2, "c"), false, "read c landed in a finished record");
        kani::cover!(st[0] == Blk::Rec1 && st[1] == Blk::NoRec && !w2);
        kani::cover!(st[0] == Blk::Rec2 && st[1] == Blk::Rec1 && !w1 && w2);
        std::mem::forget((d1, d2, r1, r2));
    }

    // all three record kinds (file, directory, asset) go through the same attribution rule
    // @h name=c14_record_kinds tier=quick timeout=600 cap=3 props=C14
    #[kani::proof]
    #[kani::unwind(7)]
    fn c14_record_kinds() {
        let (r1, r2) = (mk_reloader(), mk_reloader());
        let two: bool = kani::any();
        let rr = if two { &r2 } else { &r1 };
        // outside any record: nothing happens (no crash, nothing stored)
        add_file_record(rr, "a", "x");
        add_dir_record(rr, "d");
        add_record(rr, SharedString::from("k"), TypeId::of::<u8>());
        let ((), deps) = record(&r1, || {
            add_file_record(rr, "a", "x");
            add_dir_record(rr, "d");
            add_record(rr, SharedString::from("k"), TypeId::of::<u8>());
            // duplicates are idempotent
            add_file_record(rr, "a", "x");
        });
        let n = deps.verif_len();
        assert_eq!(n, if two { 0 } else { 3 });
        assert_eq!(deps.verif_contains(&fdep("a")), !two);
        assert_eq!(deps.verif_contains(&Dependency::Directory(SharedString::from("d"))), !two);
        assert_eq!(deps.verif_contains(&Dependency::Asset(OwnedKey::new_with(SharedString::from("k"), TypeId::of::<u8>()))), !two);
        // a file and a directory with the same id are different entries; so are two extensions
        assert!(!deps.verif_contains(&Dependency::Directory(SharedString::from("a"))));
        assert!(!deps.verif_contains(&Dependency::File(SharedString::from("a"), SharedString::from("y"))));
        assert!(RECORDING.with(|r| r.get().is_none()));
        kani::cover!(two);
        kani::cover!(!two);
        std::mem::forget((deps, r1, r2));
    }

    // `difference` = what the old set holds that the new one does not (used to unlink dropped dependencies)
    // @h name=c14_difference_semantics tier=quick cap=3 timeout=600 props=C14
    #[kani::proof]
    #[kani::unwind(7)]
    fn c14_difference_semantics() {
        let mut old = Dependencies::empty();
        let mut new = Dependencies::empty();
        old.verif_insert(fdep("a"));
        old.verif_insert(fdep("b"));
        new.verif_insert(fdep("b"));
        new.verif_insert(fdep("c"));
        let mut n = 0;
        let mut saw_a = false;
        for d in old.difference(&new) {
            n += 1;
            if *d == fdep("a") { saw_a = true; }
            assert!(n <= 3);
        }
        assert!(n == 1 && saw_a, "difference(old, new) must yield exactly the dependencies that were dropped");
        kani::cover!(true);
        std::mem::forget((old, new));
    }
}
