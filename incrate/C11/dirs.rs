// C11 — directory assets list exactly the matching ids, sorted and without duplicates (E1, Kani).
// The listing comes from an in-harness Source whose read_dir yields a solver-chosen set of entries.
#[cfg(kani)]
mod verif_c11 {
    use super::*;
    use crate::{loader, AssetCache, SharedBytes};
    use std::cell::Cell;

    /// listing of directory "d": up to 3 entries chosen by the solver from a menu
    /// 0: file d.a.x   1: file d.b.x   2: file d.a.y (same stem, other ext)   3: file d.c.z (foreign ext)
    /// 4: sub-directory d.s   5: file d.b.x again (duplicate report)
    struct Dir { picks: [u8; 3], n: usize, missing: bool, calls: Cell<usize> }
    impl Source for Dir {
        fn read(&self, _id: &str, _ext: &str) -> io::Result<crate::source::FileContent> { Err(io::Error::from(io::ErrorKind::NotFound)) }
        fn read_dir(&self, id: &str, f: &mut dyn FnMut(DirEntry)) -> io::Result<()> {
            self.calls.set(self.calls.get() + 1);
            if self.missing || id != "d" { return Err(io::Error::from(io::ErrorKind::NotFound)); }
            let mut i = 0;
            while i < self.n {
                match self.picks[i] {
                    0 => f(DirEntry::File("d.a", "x")),
                    1 => f(DirEntry::File("d.b", "x")),
                    2 => f(DirEntry::File("d.a", "y")),
                    3 => f(DirEntry::File("d.c", "z")),
                    4 => f(DirEntry::Directory("d.s")),
                    _ => f(DirEntry::File("d.b", "x")),
                }
                i += 1;
            }
            Ok(())
        }
        fn exists(&self, _e: DirEntry) -> bool { false }
    }

    struct AX(SharedBytes);
    impl From<SharedBytes> for AX { fn from(b: SharedBytes) -> AX { AX(b) } }
    impl Asset for AX { const EXTENSION: &'static str = "x"; type Loader = loader::LoadFrom<SharedBytes, loader::BytesLoader>; }
    struct AXY(SharedBytes);
    impl From<SharedBytes> for AXY { fn from(b: SharedBytes) -> AXY { AXY(b) } }
    impl Asset for AXY { const EXTENSIONS: &'static [&'static str] = &["x", "y"]; type Loader = loader::LoadFrom<SharedBytes, loader::BytesLoader>; }

    fn expect(picks: &[u8; 3], n: usize, with_y: bool) -> (bool, bool) {
        // (contains d.a, contains d.b)
        let mut a = false;
        let mut b = false;
        let mut i = 0;
        while i < n {
            match picks[i] { 0 => a = true, 1 | 5 => b = true, 2 => { if with_y { a = true; } } _ => {} }
            i += 1;
        }
        (a, b)
    }

    fn dir_case<T: DirLoadable>(with_y: bool, n: usize) {
        let picks: [u8; 3] = kani::any();
        kani::assume(picks[0] < 6 && picks[1] < 6 && picks[2] < 6);
        let src = Dir { picks, n, missing: false, calls: Cell::new(0) };
        let cache = AssetCache::verif_new(src, None);
        let id = SharedString::from("d");
        let dir = match Directory::<T>::load(cache.as_any_cache(), &id) { Ok(d) => d, Err(_) => { assert!(false, "an existing directory failed to load"); return; } };
        let (a, b) = expect(&picks, n, with_y);
        let want = a as usize + b as usize;
        assert_eq!(dir.ids.len(), want, "wrong number of ids (foreign extension listed, duplicate kept, or match lost)");
        assert_eq!(dir.ids().len(), want);
        if a { assert!(&*dir.ids[0] == "d.a", "ids are not sorted / wrong id"); }
        if b { assert!(&*dir.ids[want - 1] == "d.b", "ids are not sorted / wrong id"); }
        kani::cover!(want == 2);
        kani::cover!(want == 0);
        std::mem::forget((dir, cache));
    }

    // @h name=c11_dir_one_ext_n2 tier=parked cap=1 timeout=600
    #[kani::proof]
    #[kani::unwind(6)]
    fn c11_dir_one_ext_n2() { dir_case::<AX>(false, 2); }

    // @h name=c11_dir_two_ext_n3 tier=parked cap=1 timeout=900
    #[kani::proof]
    #[kani::unwind(6)]
    fn c11_dir_two_ext_n3() { dir_case::<AXY>(true, 3); }

    // @h name=c11_dir_arc_n2 tier=parked cap=1 timeout=600
    #[kani::proof]
    #[kani::unwind(6)]
    fn c11_dir_arc_n2() { dir_case::<std::sync::Arc<AX>>(false, 2); }

    // a missing directory is an error
    // @h name=c11_dir_missing tier=parked cap=1 timeout=600
    #[kani::proof]
    #[kani::unwind(6)]
    fn c11_dir_missing() {
        let src = Dir { picks: [0, 0, 0], n: 0, missing: true, calls: Cell::new(0) };
        let cache = AssetCache::verif_new(src, None);
        let id = SharedString::from("d");
        let r = Directory::<AX>::load(cache.as_any_cache(), &id);
        assert!(r.is_err(), "a missing directory loaded as an empty one");
        kani::cover!(true);
        std::mem::forget((r, cache));
    }

    // the selection step alone (`select_ids`, before sort + dedup): exactly the files carrying one of T's extensions
    fn select_case<T: DirLoadable>(with_y: bool) {
        let picks: [u8; 3] = kani::any();
        kani::assume(picks[0] < 6 && picks[1] < 6);
        let src = Dir { picks, n: 2, missing: false, calls: Cell::new(0) };
        let cache = AssetCache::verif_new(src, None);
        let id = SharedString::from("d");
        let ids = match T::select_ids(cache.as_any_cache(), &id) { Ok(v) => v, Err(_) => { assert!(false); return; } };
        let sel = |p: u8| p == 0 || p == 1 || p == 5 || (with_y && p == 2);
        let want = sel(picks[0]) as usize + sel(picks[1]) as usize;
        assert_eq!(ids.len(), want, "select_ids kept a foreign entry or lost a matching one");
        if want >= 1 {
            let first = if sel(picks[0]) { picks[0] } else { picks[1] };
            assert!(&*ids[0] == if first == 1 || first == 5 { "d.b" } else { "d.a" });
        }
        kani::cover!(want == 2);
        std::mem::forget((ids, cache));
    }
    // @h name=c11_select_one_ext tier=parked cap=1 timeout=300
    #[kani::proof]
    #[kani::unwind(6)]
    fn c11_select_one_ext() { select_case::<AX>(false); }
    // @h name=c11_select_two_ext tier=parked cap=1 timeout=300
    #[kani::proof]
    #[kani::unwind(6)]
    fn c11_select_two_ext() { select_case::<AXY>(true); }
}
