// C17 — OnceInitCell (E1, Kani, sequential once_cell model; device S2: once_cell serialises
// initialisers, so K racing callers = every order of K calls).
#[cfg(kani)]
mod verif_c17 {
    use super::*;

    static mut DROPS: [u8; 8] = [0; 8];
    struct Tk(u8, u8); // (ledger tag, payload)
    impl Drop for Tk { fn drop(&mut self) { unsafe { DROPS[self.0 as usize] += 1; } } }
    fn drops(i: u8) -> u8 { unsafe { DROPS[i as usize] } }

    // drop path: seed and value own heap memory and have destructors
    // @h name=c17_seq_drop_path tier=quick timeout=900 flags=-Z+unstable-options+--cbmc-args+--memory-leak-check
    #[kani::proof]
    #[kani::unwind(5)]
    fn c17_seq_drop_path() { drop_path(3); }

    // @h name=c17_seq_drop_calls5 tier=thorough timeout=3600 mem=24 flags=-Z+unstable-options+--cbmc-args+--memory-leak-check
    #[kani::proof]
    #[kani::unwind(7)]
    fn c17_seq_drop_calls5() { drop_path(5); }

    // @h name=c17_seq_drop_calls7 tier=thorough timeout=5400 mem=32 flags=-Z+unstable-options+--cbmc-args+--memory-leak-check
    #[kani::proof]
    #[kani::unwind(9)]
    fn c17_seq_drop_calls7() { drop_path(7); }

    fn drop_path(calls: usize) {
        assert!(std::mem::needs_drop::<(Tk, Box<u8>)>());
        let s0: u8 = kani::any();
        let cell: OnceInitCell<(Tk, Box<u8>), (Tk, Box<u8>)> = OnceInitCell::new((Tk(0, s0), Box::new(s0)));
        let mut seed = s0; // reference model: current seed payload
        let mut value: Option<u8> = None; // reference model: initialised value
        let mut first_ref: Option<*const (Tk, Box<u8>)> = None;
        let mut runs = 0u8;
        let mut i = 0;
        while i < calls {
            let op: u8 = kani::any();
            kani::assume(op < 3);
            match op {
                0 => {
                    // get never runs an initialiser
                    match cell.get() {
                        Some(v) => { assert!(value == Some(v.0 .1) && *v.1 == v.0 .1); }
                        None => assert!(value.is_none()),
                    }
                }
                1 => {
                    let ok: bool = kani::any();
                    let bump: bool = kani::any();
                    let mut ran = false;
                    let r = cell.get_or_try_init(|u| {
                        ran = true;
                        // the seed is only ever handed out inside once_cell's (serialised) initialiser
                        assert!(unsafe { once_cell::MODEL_IN_INIT } > 0, "the initialiser runs outside the OnceCell critical section: racing callers would all get &mut to the seed");
                        assert!(u.0 .1 == seed && *u.1 == seed); // the seed survived earlier failures
                        if bump { u.0 .1 = u.0 .1.wrapping_add(1); *u.1 = u.0 .1; }
                        if ok { Ok((Tk(1, u.0 .1 ^ 0x55), Box::new(u.0 .1 ^ 0x55))) } else { Err(7u8) }
                    });
                    assert_eq!(ran, value.is_none()); // runs iff uninitialised
                    if ran {
                        runs += 1;
                        if bump { seed = seed.wrapping_add(1); }
                        if ok { value = Some(seed ^ 0x55); }
                    }
                    match r {
                        Ok(v) => {
                            assert!(value == Some(v.0 .1) && *v.1 == v.0 .1);
                            match first_ref { None => first_ref = Some(v as *const _), Some(p) => assert!(p == v as *const _) }
                        }
                        Err(e) => { assert!(e == 7 && ran && !ok && value.is_none()); assert!(cell.get().is_none()); }
                    }
                }
                _ => {
                    let mut ran = false;
                    let v = cell.get_or_init(|u| { ran = true; assert!(u.0 .1 == seed); (Tk(1, u.0 .1 ^ 0x55), Box::new(u.0 .1 ^ 0x55)) });
                    assert_eq!(ran, value.is_none());
                    if ran { runs += 1; value = Some(seed ^ 0x55); }
                    assert!(value == Some(v.0 .1));
                    match first_ref { None => first_ref = Some(v as *const _), Some(p) => assert!(p == v as *const _) }
                }
            }
            // exactly one of seed / value is live
            assert_eq!(drops(0), if value.is_some() { 1 } else { 0 });
            assert_eq!(drops(1), 0);
            i += 1;
        }
        let was_init = value.is_some();
        drop(cell);
        // at cell drop everything is released exactly once
        assert_eq!(drops(0), 1);
        assert_eq!(drops(1), if was_init { 1 } else { 0 });
        kani::cover!(runs as usize == calls && was_init);
        kani::cover!(runs == 2 && !was_init);
        kani::cover!(was_init && runs == 1);
        assert!(unsafe { !once_cell::MODEL_REENTRANT });
    }

    // no-drop path: the seed has no destructor (specialised implementation)
    // @h name=c17_seq_nodrop_path tier=quick timeout=900 flags=-Z+unstable-options+--cbmc-args+--memory-leak-check
    #[kani::proof]
    #[kani::unwind(5)]
    fn c17_seq_nodrop_path() {
        assert!(!std::mem::needs_drop::<u8>());
        let s0: u8 = kani::any();
        let cell: OnceInitCell<u8, (Tk, Box<u8>)> = OnceInitCell::new(s0);
        let mut seed = s0;
        let mut value: Option<u8> = None;
        let mut first_ref: Option<*const (Tk, Box<u8>)> = None;
        let mut i = 0;
        while i < 3 {
            let op: u8 = kani::any();
            kani::assume(op < 2);
            if op == 0 {
                match cell.get() {
                    Some(v) => assert!(value == Some(v.0 .1)),
                    None => assert!(value.is_none()),
                }
            } else {
                let ok: bool = kani::any();
                let bump: bool = kani::any();
                let mut ran = false;
                let r = cell.get_or_try_init(|u| {
                    ran = true;
                    assert!(unsafe { once_cell::MODEL_IN_INIT } > 0, "the initialiser runs outside the OnceCell critical section: racing callers would all get &mut to the seed");
                    assert!(*u == seed);
                    if bump { *u = u.wrapping_add(1); }
                    if ok { Ok((Tk(1, *u ^ 0x55), Box::new(*u))) } else { Err(()) }
                });
                assert_eq!(ran, value.is_none());
                if ran {
                    if bump { seed = seed.wrapping_add(1); }
                    if ok { value = Some(seed ^ 0x55); }
                }
                match r {
                    Ok(v) => {
                        assert!(value == Some(v.0 .1));
                        match first_ref { None => first_ref = Some(v as *const _), Some(p) => assert!(p == v as *const _) }
                    }
                    Err(()) => assert!(ran && !ok && cell.get().is_none()),
                }
            }
            assert_eq!(drops(1), 0);
            i += 1;
        }
        let was_init = value.is_some();
        drop(cell);
        assert_eq!(drops(1), if was_init { 1 } else { 0 });
        kani::cover!(was_init);
        kani::cover!(!was_init);
    }

    // with_value cells behave as initialised; Default builds an uninitialised cell
    // @h name=c17_with_value tier=quick flags=-Z+unstable-options+--cbmc-args+--memory-leak-check
    #[kani::proof]
    #[kani::unwind(4)]
    fn c17_with_value() {
        let x: u8 = kani::any();
        let cell: OnceInitCell<Box<u8>, (Tk, Box<u8>)> = OnceInitCell::with_value((Tk(2, x), Box::new(x)));
        assert!(cell.get().map(|v| v.0 .1) == Some(x));
        let mut ran = false;
        let v = cell.get_or_init(|_| { ran = true; (Tk(3, 0), Box::new(0)) });
        assert!(!ran && v.0 .1 == x);
        let r: Result<_, ()> = cell.get_or_try_init(|_| { ran = true; Err(()) });
        assert!(!ran && r.is_ok());
        drop(cell);
        assert!(drops(2) == 1 && drops(3) == 0);
        let d: OnceInitCell<u8, u8> = OnceInitCell::default();
        assert!(d.get().is_none());
        assert_eq!(*d.get_or_init(|u| *u + 1), 1);
    }

    // The instant the once completes, any other thread may call get(): the final value must already be in
    // place then (S2: once_cell's completion is the linearisation point of the initialisation).
    type CellND = OnceInitCell<u8, (Tk, Box<u8>)>;
    static mut OBSERVED_CELL: Option<*const CellND> = None;
    static mut EXPECTED: u8 = 0;
    static mut OBSERVED: bool = false;
    fn other_thread_gets() {
        unsafe {
            let cell = &*OBSERVED_CELL.unwrap();
            match cell.get() {
                Some(v) => { assert!(v.0 .1 == EXPECTED && *v.1 == EXPECTED, "get() returned a reference before the final value was in place"); }
                None => assert!(false, "the cell is initialised but get() says it is not"),
            }
            OBSERVED = true;
        }
    }

    // @h name=c17_value_in_place_when_once_completes tier=quick timeout=600
    #[kani::proof]
    #[kani::unwind(5)]
    fn c17_value_in_place_when_once_completes() {
        let s0: u8 = kani::any();
        let cell: CellND = OnceInitCell::new(s0);
        unsafe { OBSERVED_CELL = Some(&cell as *const CellND); EXPECTED = s0 ^ 0x55; once_cell::ON_INIT_DONE = Some(other_thread_gets); }
        let v = cell.get_or_init(|u| (Tk(1, *u ^ 0x55), Box::new(*u ^ 0x55)));
        assert!(v.0 .1 == s0 ^ 0x55 && unsafe { OBSERVED });
        unsafe { once_cell::ON_INIT_DONE = None; }
        std::mem::forget(cell);
    }

    // same for the drop path (seed with a destructor)
    type CellD = OnceInitCell<(Tk, Box<u8>), (Tk, Box<u8>)>;
    static mut OBSERVED_CELL_D: Option<*const CellD> = None;
    fn other_thread_gets_d() {
        unsafe {
            let cell = &*OBSERVED_CELL_D.unwrap();
            match cell.get() {
                Some(v) => { assert!(v.0 .1 == EXPECTED && *v.1 == EXPECTED, "get() returned a reference before the final value was in place"); }
                None => assert!(false, "the cell is initialised but get() says it is not"),
            }
            OBSERVED = true;
        }
    }
    // @h name=c17_value_in_place_drop_path tier=quick timeout=600
    #[kani::proof]
    #[kani::unwind(5)]
    fn c17_value_in_place_drop_path() {
        let s0: u8 = kani::any();
        let cell: CellD = OnceInitCell::new((Tk(0, s0), Box::new(s0)));
        unsafe { OBSERVED_CELL_D = Some(&cell as *const CellD); EXPECTED = s0 ^ 0x55; once_cell::ON_INIT_DONE = Some(other_thread_gets_d); }
        let v = cell.get_or_init(|u| (Tk(1, u.0 .1 ^ 0x55), Box::new(u.0 .1 ^ 0x55)));
        assert!(v.0 .1 == s0 ^ 0x55 && unsafe { OBSERVED });
        unsafe { once_cell::ON_INIT_DONE = None; }
        std::mem::forget(cell);
    }

    // boundary seed type: zero-sized but with a destructor (must take the drop path)
    struct ZDrop;
    impl Drop for ZDrop { fn drop(&mut self) { unsafe { DROPS[5] += 1; } } }
    // @h name=c17_zero_sized_seed_with_drop tier=quick timeout=600 flags=-Z+unstable-options+--cbmc-args+--memory-leak-check
    #[kani::proof]
    #[kani::unwind(5)]
    fn c17_zero_sized_seed_with_drop() {
        assert!(std::mem::needs_drop::<ZDrop>() && std::mem::size_of::<ZDrop>() == 0);
        let cell: OnceInitCell<ZDrop, (Tk, Box<u8>)> = OnceInitCell::new(ZDrop);
        let init: bool = kani::any();
        if init {
            let ok: bool = kani::any();
            let r: Result<_, ()> = cell.get_or_try_init(|_| if ok { Ok((Tk(1, 9), Box::new(9))) } else { Err(()) });
            assert_eq!(r.is_ok(), ok);
            // exactly one of seed / value is live
            assert_eq!(drops(5), if ok { 1 } else { 0 }, "the zero-sized seed's destructor did not run exactly once when it was retired");
        }
        drop(cell);
        assert_eq!(drops(5), 1, "a seed was dropped twice or never");
        kani::cover!(init);
    }
}
