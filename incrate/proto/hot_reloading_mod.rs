// C08 (a) / C15 / C07 (d): the reloader thread and the hot_reload answer protocol (E1, Kani),
// decided as one-step obligations from symbolic pre-states (no exploration of call histories):
//  * monitor discipline of `Answers`: whoever makes the other side's wait-condition false must
//    notify before leaving the critical section; a side whose condition does not hold blocks
//    without touching the slot;
//  * one step of the real `hot_reloading_thread` from each relevant channel state: a queued `Ptr`
//    is answered exactly once with its own token after the update ran; a dead cache makes the
//    thread exit or sleep, never spin.
// Model primitives report would-block to the hooks below instead of blocking.
#[cfg(kani)]
mod verif_proto {
    use super::*;
    use parking_lot::Ev;

    // ---- ghost event log ---------------------------------------------------------------------
    static mut N_NOTIFY: usize = 0;
    static mut N_WAIT: usize = 0;
    static mut N_LOCK: usize = 0;
    static mut N_UNLOCK: usize = 0;
    static mut SLOT: Option<*mut Option<usize>> = None;
    static mut SLOT_AT_WAIT: Option<Option<usize>> = None;
    static mut SLOT_AT_LAST_NOTIFY: Option<Option<usize>> = None;
    static mut IDLE_RETURNS: usize = 0;
    static mut LAST_RECEIVED: usize = 0;
    static mut BLOCK_ENDS_PATH: bool = true;

    fn on_event(e: Ev, _a: usize) {
        unsafe {
            match e {
                Ev::CondNotify => { N_NOTIFY += 1; if let Some(p) = SLOT { SLOT_AT_LAST_NOTIFY = Some(*p); } }
                Ev::CondWait => { N_WAIT += 1; if let Some(p) = SLOT { SLOT_AT_WAIT = Some(*p); } }
                Ev::MutexLock => N_LOCK += 1,
                Ev::MutexUnlock => N_UNLOCK += 1,
                _ => {}
            }
        }
    }
    fn on_lock_block(e: Ev, _a: usize) {
        assert!(e == Ev::CondWait, "a mutex acquisition would block: the critical sections are not properly bracketed");
        // a thread that waits stays blocked in these one-step harnesses: end of the path
        unsafe { REACHED_BLOCK = true; }
        kani::assume(false);
    }
    static mut REACHED_BLOCK: bool = false;

    fn install(answers: &Answers) {
        unsafe { SLOT = Some(answers.current_token.verif_data_ptr()); }
        parking_lot::set_event_hook(Some(on_event));
        parking_lot::set_block_hook(Some(on_lock_block));
    }

    // ---- monitor discipline of Answers ---------------------------------------------------------
    // @h name=proto_wait_for_answer_consumes tier=quick props=C08 role=wait_for_answer+empties+the+slot+and+must+wake+the+reloader+blocked+in+notify
    #[kani::proof]
    #[kani::unwind(3)]
    fn proto_wait_for_answer_consumes() {
        let answers = Answers::default();
        install(&answers);
        let tok: usize = kani::any();
        unsafe { *answers.current_token.verif_data_ptr() = Some(tok); }
        let e0 = answers.condvar.verif_epoch();
        answers.wait_for_answer(tok);
        unsafe {
            assert!(*answers.current_token.verif_data_ptr() == None, "the answer was not consumed");
            assert!(N_WAIT == 0, "waited although its own token was published");
            assert!(N_LOCK == N_UNLOCK && !answers.current_token.verif_locked());
            // the slot went from full to empty: a reloader blocked in `notify` (waiting for an empty slot)
            // must be woken, otherwise it sleeps forever (parking_lot has no spurious wake-ups)
            assert!(answers.condvar.verif_epoch() != e0 && SLOT_AT_LAST_NOTIFY == Some(None),
                "LOST WAKE-UP: wait_for_answer emptied the answer slot without notify_all; a reloader blocked in Answers::notify is never woken");
        }
    }

    // @h name=proto_notify_publishes tier=quick props=C08 role=notify+publishes+the+token+and+wakes+all+waiters
    #[kani::proof]
    #[kani::unwind(3)]
    fn proto_notify_publishes() {
        let answers = Answers::default();
        install(&answers);
        let tok: usize = kani::any();
        let e0 = answers.condvar.verif_epoch();
        answers.notify(tok);
        unsafe {
            assert!(*answers.current_token.verif_data_ptr() == Some(tok));
            assert!(N_WAIT == 0 && N_LOCK == N_UNLOCK && !answers.current_token.verif_locked());
            assert!(answers.condvar.verif_epoch() != e0 && SLOT_AT_LAST_NOTIFY == Some(Some(tok)),
                "notify published a token without waking the waiters");
        }
    }

    // a side whose condition does not hold must block, leaving the slot untouched
    // @h name=proto_blocked_sides tier=quick props=C08 role=callers+and+reloader+block+without+touching+the+slot
    #[kani::proof]
    #[kani::unwind(3)]
    fn proto_blocked_sides() {
        let answers = Answers::default();
        install(&answers);
        let tok: usize = kani::any();
        let slot: Option<usize> = kani::any();
        unsafe { *answers.current_token.verif_data_ptr() = slot; }
        fn parked(e: Ev, _a: usize) { assert!(e == Ev::CondWait); kani::cover!(true, "blocked as required"); kani::assume(false); }
        parking_lot::set_block_hook(Some(parked));
        if kani::any() {
            kani::assume(slot != Some(tok));
            answers.wait_for_answer(tok); // must not return: path ends in the block hook
            assert!(false, "a caller was released by an answer that is not its own");
        } else {
            kani::assume(slot.is_some());
            answers.notify(tok); // must not return while the previous answer is unconsumed
            assert!(false, "the reloader overwrote an answer nobody consumed yet");
        }
    }
    // @h name=proto_parked_state tier=quick props=C08 role=blocking+wait+leaves+slot+unchanged+and+mutex+released
    #[kani::proof]
    #[kani::unwind(3)]
    fn proto_parked_state() {
        let answers = Answers::default();
        install(&answers);
        let tok: usize = kani::any();
        let slot: Option<usize> = kani::any();
        kani::assume(slot.is_some() && slot != Some(tok));
        unsafe { *answers.current_token.verif_data_ptr() = slot; }
        fn check_then_end(e: Ev, _a: usize) {
            assert!(e == Ev::CondWait);
            unsafe {
                assert!(SLOT_AT_WAIT == Some(EXPECT_SLOT), "the slot changed before the waiter went to sleep");
                assert!(N_UNLOCK == N_LOCK, "the waiter sleeps while holding the mutex");
            }
            kani::cover!(true, "waiter parked with the mutex released");
            kani::assume(false);
        }
        unsafe { EXPECT_SLOT = slot; }
        parking_lot::set_block_hook(Some(check_then_end));
        if kani::any() { answers.wait_for_answer(tok); } else { answers.notify(tok); }
        assert!(false, "returned although its condition does not hold");
    }
    static mut EXPECT_SLOT: Option<usize> = None;

    // @h name=proto_tokens_unique tier=quick props=C08 role=tokens+are+unique
    #[kani::proof]
    fn proto_tokens_unique() {
        let answers = Answers::default();
        let start: usize = kani::any();
        answers.next_token.store(start, Ordering::Relaxed);
        let (a, b, c) = (answers.get_unique_token(), answers.get_unique_token(), answers.get_unique_token());
        assert!(a != b && b != c && a != c && a == start);
    }

    // ---- the caller side: reload() = token, send Ptr, wait for *that* token -----------------------
    #[allow(dead_code)]
    fn stub_parallelism() -> std::io::Result<std::num::NonZeroUsize> { Ok(std::num::NonZeroUsize::new(1).unwrap()) }

    fn reload_case(answered: bool) {
        let map = crate::cache::AssetMap::verif_single_shard();
        let (tx, rx) = channel::unbounded::<CacheMessage>();
        let answers = Arc::new(Answers::default());
        install(&answers);
        let start: usize = kani::any();
        answers.next_token.store(start, Ordering::Relaxed);
        let r = HotReloader { sender: tx, answers: answers.clone() };
        if answered {
            // the reloader answered before the caller took the lock
            unsafe { *answers.current_token.verif_data_ptr() = Some(start); }
            r.reload(&map);
            assert!(unsafe { *answers.current_token.verif_data_ptr() } == None);
            kani::cover!(true, "@proto_reload_answered: reload returned after its answer");
        } else {
            fn end(e: Ev, _a: usize) {
                assert!(e == Ev::CondWait);
                kani::cover!(true, "@proto_reload_unanswered: hot_reload blocks until answered");
                // the request must already be queued when the caller goes to sleep
                assert!(unsafe { QUEUED.map(|f| f()) } == Some(1), "the caller sleeps without having sent its request");
                kani::assume(false);
            }
            unsafe { RXLEN = Some(&rx as *const _ as *const ()); QUEUED = Some(|| (*(RXLEN.unwrap() as *const Receiver<CacheMessage>)).len()); }
            parking_lot::set_block_hook(Some(end));
            r.reload(&map);
            assert!(false, "hot_reload returned without being answered: cached values may still change after it returns");
        }
        // exactly one message, carrying this map, this reloader and this token
        match rx.try_recv() {
            Ok(CacheMessage::Ptr(m, rr, t)) => {
                assert!(t == start && m.as_ptr() as *const u8 == &map as *const _ as *const u8 && rr.as_ptr() as *const u8 == &r as *const _ as *const u8);
            }
            _ => assert!(false, "reload did not send a Ptr message"),
        }
        assert!(rx.try_recv().is_err());
        std::mem::forget((map, r, rx));
    }
    static mut RXLEN: Option<*const ()> = None;
    static mut QUEUED: Option<fn() -> usize> = None;

    // @h name=proto_reload_answered tier=quick timeout=600 props=C08,C07 role=reload+sends+its+token+and+consumes+only+its+own+answer
    #[kani::proof]
    #[kani::unwind(6)]
    fn proto_reload_answered() { reload_case(true); }

    // @h name=proto_reload_unanswered tier=quick timeout=600 props=C08,C07 role=reload+blocks+until+answered
    #[kani::proof]
    #[kani::unwind(6)]
    fn proto_reload_unanswered() { reload_case(false); }

    // ---- the reloader side: one pass of the real thread function ---------------------------------
    fn on_ready(_idx: usize) {
        unsafe {
            let rec = crossbeam_channel::RECEIVED;
            if rec == LAST_RECEIVED { IDLE_RETURNS += 1; } else { IDLE_RETURNS = 0; }
            LAST_RECEIVED = rec;
            assert!(IDLE_RETURNS <= 2, "SPIN: the reloader thread keeps waking up (Select::ready returns) without consuming any message");
            kani::assume(IDLE_RETURNS <= 2);
        }
    }
    static mut FLIP: usize = 0;
    fn fair_choice(n: usize) -> usize { unsafe { FLIP += 1; FLIP % n } }
    static mut AT_IDLE: Option<fn()> = None;
    fn on_chan_block() {
        // both channels empty and connected: the thread sleeps in Select::ready
        if let Some(f) = unsafe { AT_IDLE } { f(); }
        kani::assume(false);
    }
    fn install_chan() {
        crossbeam_channel::set_block_hook(Some(on_chan_block));
        crossbeam_channel::set_ready_hook(Some(on_ready));
        crossbeam_channel::set_choice_hook(Some(fair_choice));
    }

    // a queued Ptr request is answered exactly once, with its own token, and the thread goes back to sleep
    // @h name=proto_thread_answers_ptr tier=parked timeout=3600 props=C08,C07,C09 role=reloader+answers+each+queued+request+with+its+own+token
    #[kani::proof]
    #[kani::unwind(5)]
    fn proto_thread_answers_ptr() {
        let map = crate::cache::AssetMap::verif_single_shard();
        let (events_tx, events_rx) = channel::unbounded::<Events>();
        let (tx, rx) = channel::unbounded::<CacheMessage>();
        let answers = Arc::new(Answers::default());
        install(&answers);
        install_chan();
        let r = HotReloader { sender: tx.clone(), answers: answers.clone() };
        let tok: usize = kani::any();
        // optional other traffic before the request
        let _ = tx.send(CacheMessage::Clear);
        let _ = tx.send(CacheMessage::Ptr(NonNull::from(&map), NonNull::from(&r), tok));
        unsafe { EXPECT_SLOT = Some(tok); }
        fn at_idle() {
            kani::cover!(true, "reloader back to sleep after answering");
            unsafe {
                assert!(*SLOT.unwrap() == EXPECT_SLOT, "the reloader went back to sleep without answering the pending hot_reload request");
                assert!(N_NOTIFY == 1 && N_WAIT == 0);
                assert!(crossbeam_channel::RECEIVED >= 1);
            }
        }
        unsafe { AT_IDLE = Some(at_idle); }
        let source: Box<dyn Source> = Box::new(crate::source::Empty);
        hot_reloading_thread(source, events_rx, rx, answers.clone());
        assert!(false, "the reloader exited although its cache and event source are alive");
        std::mem::forget((map, r, tx, events_tx));
    }

    // ---- C15: the cache is gone ------------------------------------------------------------------
    fn dead_cache_case(keep_events: bool, queued_clear: bool, queued_event: bool) {
        let (events_tx, events_rx) = channel::unbounded::<Events>();
        let (tx, rx) = channel::unbounded::<CacheMessage>();
        let answers = Arc::new(Answers::default());
        install(&answers);
        install_chan();
        if queued_clear { let _ = tx.send(CacheMessage::Clear); }
        if queued_event { let _ = events_tx.send(Events::Single(crate::source::OwnedDirEntry::File("q".into(), "x".into()))); }
        drop(tx); // drop(cache): the HotReloader owned the only Sender<CacheMessage>
        let kept = if keep_events { Some(events_tx) } else { drop(events_tx); None };
        unsafe { AT_IDLE = None; }
        let source: Box<dyn Source> = Box::new(crate::source::Empty);
        hot_reloading_thread(source, events_rx, rx, answers.clone());
        // reaching this point = the thread exited; ending in on_chan_block = it sleeps for good: both accepted
        std::mem::forget(kept);
    }

    // @h name=proto_c15_dead_kept_idle tier=quick timeout=300 props=C15 kind=bounded_termination role=cache+dropped+while+idle,+the+source+keeps+the+event+sender
    #[kani::proof]
    #[kani::unwind(5)]
    fn proto_c15_dead_kept_idle() { dead_cache_case(true, false, false); }

    // @h name=proto_c15_dead_kept_queued tier=parked timeout=3600 props=C15 kind=bounded_termination role=cache+dropped+with+a+message+and+an+event+still+queued,+event+sender+kept
    #[kani::proof]
    #[kani::unwind(5)]
    fn proto_c15_dead_kept_queued() { dead_cache_case(true, true, true); }

    // @h name=proto_c15_dead_all_idle tier=quick timeout=300 props=C15 kind=bounded_termination role=cache+and+event+sender+dropped+while+idle
    #[kani::proof]
    #[kani::unwind(6)]
    fn proto_c15_dead_all_idle() { dead_cache_case(false, false, false); }

    // @h name=proto_c15_dead_all_queued tier=parked timeout=3600 props=C15 kind=bounded_termination role=cache+and+event+sender+dropped+with+an+event+still+queued
    #[kani::proof]
    #[kani::unwind(6)]
    fn proto_c15_dead_all_queued() { dead_cache_case(false, false, true); }

    // idle but alive: every wake-up consumes a message, then the thread sleeps again
    fn idle_case(n: u8, clear: bool) {
        let (events_tx, events_rx) = channel::unbounded::<Events>();
        let (tx, rx) = channel::unbounded::<CacheMessage>();
        let answers = Arc::new(Answers::default());
        install(&answers);
        install_chan();
        if n >= 1 { let _ = events_tx.send(Events::Single(crate::source::OwnedDirEntry::File("q".into(), "x".into()))); }
        if n >= 2 { let _ = events_tx.send(Events::Multiple(vec![crate::source::OwnedDirEntry::Directory("d".into())])); }
        if clear { let _ = tx.send(CacheMessage::Clear); }
        fn at_idle() { kani::cover!(true, "idle reloader sleeps"); unsafe { assert!(IDLE_RETURNS <= 1); } }
        unsafe { AT_IDLE = Some(at_idle); }
        let source: Box<dyn Source> = Box::new(crate::source::Empty);
        hot_reloading_thread(source, events_rx, rx, answers.clone());
        assert!(false, "the reloader exited although its cache and event source are alive");
        std::mem::forget((tx, events_tx));
    }

    // @h name=proto_c15_idle_nothing tier=quick timeout=300 props=C15 kind=bounded_termination role=idle+cache,+nothing+queued
    #[kani::proof]
    #[kani::unwind(5)]
    fn proto_c15_idle_nothing() { idle_case(0, false); }

    // @h name=proto_c15_idle_events tier=parked timeout=3600 props=C15 kind=bounded_termination role=idle+cache+with+2+events+for+unknown+entries+and+a+Clear
    #[kani::proof]
    #[kani::unwind(6)]
    fn proto_c15_idle_events() { idle_case(2, true); }

    // reload() on a cache whose reloader thread is gone (receiver dropped) returns at once
    // @h name=proto_reload_disconnected tier=quick timeout=600 props=C08 role=hot_reload+returns+when+the+reloader+thread+has+stopped
    #[kani::proof]
    #[kani::unwind(6)]
    fn proto_reload_disconnected() {
        let map = crate::cache::AssetMap::verif_single_shard();
        let (tx, rx) = channel::unbounded::<CacheMessage>();
        let answers = Arc::new(Answers::default());
        install(&answers);
        drop(rx);
        let r = HotReloader { sender: tx, answers: answers.clone() };
        fn never(_e: Ev, _a: usize) { assert!(false, "hot_reload waits for an answer although its request could not be sent: it never returns"); kani::assume(false); }
        parking_lot::set_block_hook(Some(never));
        r.reload(&map);
        kani::cover!(true, "@proto_reload_disconnected: returned");
        // the other notifications to a dead reloader are ignored as well
        r.clear();
        std::mem::forget((map, r));
    }

    // the event source went away while the cache is alive: the thread may exit or sleep, never spin
    // @h name=proto_c15_events_gone tier=quick timeout=300 props=C15 kind=bounded_termination role=event+sender+dropped+while+the+cache+is+alive
    #[kani::proof]
    #[kani::unwind(5)]
    fn proto_c15_events_gone() {
        let (events_tx, events_rx) = channel::unbounded::<Events>();
        let (tx, rx) = channel::unbounded::<CacheMessage>();
        let answers = Arc::new(Answers::default());
        install(&answers);
        install_chan();
        drop(events_tx);
        unsafe { AT_IDLE = None; }
        let source: Box<dyn Source> = Box::new(crate::source::Empty);
        hot_reloading_thread(source, events_rx, rx, answers.clone());
        std::mem::forget(tx);
    }

    // a waiter woken by a notification that does not concern it (notify_all wakes every caller) must
    // re-check its condition and go back to sleep, leaving the slot alone
    // @h name=proto_woken_for_other_token tier=quick timeout=600 props=C08 role=caller+or+reloader+woken+by+a+notification+meant+for+somebody+else
    #[kani::proof]
    #[kani::unwind(4)]
    fn proto_woken_for_other_token() {
        let answers = Answers::default();
        install(&answers);
        let tok: usize = kani::any();
        let slot: Option<usize> = kani::any();
        kani::assume(slot.is_some() && slot != Some(tok));
        unsafe { *answers.current_token.verif_data_ptr() = slot; EXPECT_SLOT = slot; WAITS = 0; COND = Some(&answers.condvar as *const Condvar); }
        fn wake_once(e: Ev, _a: usize) {
            assert!(e == Ev::CondWait);
            unsafe {
                WAITS += 1;
                assert!(*SLOT.unwrap() == EXPECT_SLOT, "the slot changed while the waiter was parked");
                if WAITS == 1 {
                    // somebody else's notify_all: the waiter wakes up although nothing changed for it
                    (*COND.unwrap()).notify_all();
                    return;
                }
            }
            kani::cover!(true, "@proto_woken_for_other_token: waiter went back to sleep after a foreign wake-up");
            kani::assume(false);
        }
        parking_lot::set_block_hook(Some(wake_once));
        if kani::any() { answers.wait_for_answer(tok); } else { answers.notify(tok); }
        assert!(false, "a waiter woken by a notification meant for somebody else went ahead without re-checking its condition");
    }
    static mut WAITS: usize = 0;
    static mut COND: Option<*const Condvar> = None;

    // one event for an unknown entry arrives, then nothing: the thread consumes it and sleeps again
    // @h name=proto_c15_one_event_then_idle tier=quick cap=1 timeout=900 props=C15 kind=bounded_termination role=one+event+then+idle
    #[kani::proof]
    #[kani::unwind(5)]
    fn proto_c15_one_event_then_idle() { idle_case(1, false); }

    // a watcher learns that the reloader is gone: every way of sending to a dead reloader reports Disconnected
    // @h name=proto_c15_send_to_dead_reloader tier=quick cap=1 timeout=600 props=C15 role=sending+events+to+a+stopped+reloader
    #[kani::proof]
    #[kani::unwind(5)]
    fn proto_c15_send_to_dead_reloader() {
        use crate::source::OwnedDirEntry;
        let (tx, rx) = channel::unbounded::<Events>();
        let sender = EventSender(tx);
        drop(rx);
        let f = || OwnedDirEntry::File("q".into(), "x".into());
        assert!(sender.send(f()).is_err());
        assert!(sender.send_multiple(Some(f())).is_err(), "a watcher is not told that the reloader is gone (one event)");
        assert!(sender.send_multiple(vec![f(), f()]).is_err(), "a watcher is not told that the reloader is gone (batch)");
        // a batch that turns out to be empty after filtering (paths that map to no id): the built-in
        // filesystem watcher relies on this call failing to release itself
        // (same iterator shape as NotifyEventHandler::handle_event: flat_map + filter, no exact upper bound;
        //  an iterator that *knows* it is empty is documented to return Ok(0) without touching the channel)
        let none = vec![f()].into_iter().flat_map(|e| vec![e]).filter(|_| false);
        assert!(none.size_hint().1 != Some(0) && none.size_hint().1 != Some(1));
        assert!(sender.send_multiple(none).is_err(), "a watcher whose events map to no id never learns that the reloader is gone");
        kani::cover!(true);
    }
}
