// C02 — the front-ends are one map: a value stored through the cache is found again by every look-up of the same
// (id, type), whether or not the cache has a reloader and whether or not the type is reloadable (the hot-reloading
// build routes look-ups of reloadable types through the recording code).
#[cfg(kani)]
mod verif_c02_frontends {
    use super::*;
    use crate::{AnyCache, AssetCache, BoxedError, Compound};

    struct R(u8);
    impl Compound for R {
        fn load(_cache: AnyCache, _id: &SharedString) -> Result<Self, BoxedError> { Ok(R(0)) }
    }
    struct N(u8);
    impl Compound for N {
        fn load(_cache: AnyCache, _id: &SharedString) -> Result<Self, BoxedError> { Ok(N(0)) }
        const HOT_RELOADED: bool = false;
    }

    fn thin<T>(h: &crate::Handle<T>) -> *const u8 { h as *const crate::Handle<T> as *const u8 }

    fn lookups(with_reloader: bool, reloadable: bool) {
        let cache = if with_reloader {
            let (r, rx) = HotReloader::verif_with_receiver();
            std::mem::forget(rx);
            AssetCache::verif_new(crate::source::Empty, Some(r))
        } else {
            AssetCache::verif_new(crate::source::Empty, None)
        };
        let v: u8 = kani::any();
        if reloadable {
            assert!(cache.get_cached::<R>("k").is_none() && !cache.contains::<R>("k"));
            let h = thin(cache.get_or_insert::<R>("k", R(v)));
            assert!(cache.contains::<R>("k"), "contains does not see a stored value");
            let g = cache.get_cached::<R>("k");
            assert!(g.map(thin) == Some(h), "get_cached does not find a stored value (or finds another handle)");
            assert!(cache.as_any_cache().get_cached::<R>("k").map(thin) == Some(h), "the AnyCache view disagrees with the cache");
            assert!(cache.get_cached::<R>("j").is_none());
        } else {
            let h = thin(cache.get_or_insert::<N>("k", N(v)));
            assert!(cache.contains::<N>("k") && cache.get_cached::<N>("k").map(thin) == Some(h));
            assert!(cache.as_any_cache().get_cached::<N>("k").map(thin) == Some(h));
        }
        std::mem::forget(cache);
    }

    // @h name=c02_lookup_no_reloader_reloadable tier=quick cap=1 timeout=1200
    #[kani::proof]
    #[kani::unwind(6)]
    fn c02_lookup_no_reloader_reloadable() { lookups(false, true); kani::cover!(true); }
    // @h name=c02_lookup_reloader_reloadable tier=quick cap=1 timeout=1200
    #[kani::proof]
    #[kani::unwind(6)]
    fn c02_lookup_reloader_reloadable() { lookups(true, true); kani::cover!(true); }
    // @h name=c02_lookup_optout tier=thorough cap=1 timeout=1200
    #[kani::proof]
    #[kani::unwind(6)]
    fn c02_lookup_optout() { let w: bool = kani::any(); lookups(w, false); kani::cover!(true); }
}
