// Ghost constructor: a HotReloader that is not backed by a thread (model build only).
#[cfg(kani)]
#[allow(dead_code)]
impl HotReloader {
    pub(crate) fn verif_new() -> HotReloader {
        let (tx, rx) = channel::unbounded();
        std::mem::forget(rx);
        HotReloader { sender: tx, answers: Arc::new(Answers::default()) }
    }
    pub(crate) fn verif_with_receiver() -> (HotReloader, Receiver<CacheMessage>) {
        let (tx, rx) = channel::unbounded();
        (HotReloader { sender: tx, answers: Arc::new(Answers::default()) }, rx)
    }
}
