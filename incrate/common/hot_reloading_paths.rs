// Ghost accessor (model build only).
#[cfg(kani)]
#[allow(dead_code)]
impl AssetReloadInfos {
    pub(crate) fn verif_key_id_is(&self, id: &str) -> bool { &*self.0.id == id }
    pub(crate) fn verif_has_type(&self, t: std::any::TypeId) -> bool { self.0.type_id == t && self.2.type_id == t }
    pub(crate) fn verif_deps(&self) -> &Dependencies { &self.1 }
}
