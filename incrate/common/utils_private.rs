// Verification model of std::collections::{HashMap, HashSet}: hash-checked association list.
// lookup(q) finds entry e  iff  hash(e.key) == hash(q) && e.key.borrow() == q
pub mod model_collections {
    use std::borrow::Borrow;
    use std::hash::{BuildHasher, Hash, Hasher};

    fn h<S: BuildHasher, Q: Hash + ?Sized>(s: &S, q: &Q) -> u64 {
        let mut st = s.build_hasher();
        q.hash(&mut st);
        st.finish()
    }

    pub const CAP: usize = 4;
    pub struct HashMap<K, V, S> { items: [Option<(u64, K, V)>; CAP], hasher: S }

    impl<K, V, S> HashMap<K, V, S> {
        pub fn with_hasher(hasher: S) -> Self { Self { items: [None, None, None, None], hasher } }
        pub fn with_capacity_and_hasher(_c: usize, hasher: S) -> Self { Self::with_hasher(hasher) }
        pub fn clear(&mut self) { let mut i = 0; while i < CAP { self.items[i] = None; i += 1; } }
        pub fn len(&self) -> usize { let mut n = 0; let mut i = 0; while i < CAP { if self.items[i].is_some() { n += 1; } i += 1; } n }
        pub fn iter(&self) -> impl Iterator<Item = (&K, &V)> { self.items.iter().filter_map(|e| e.as_ref().map(|(_, k, v)| (k, v))) }
        pub fn values_mut(&mut self) -> impl Iterator<Item = &mut V> { self.items.iter_mut().filter_map(|e| e.as_mut().map(|(_, _, v)| v)) }
    }

    impl<K: Eq + Hash, V, S: BuildHasher> HashMap<K, V, S> {
        fn pos<Q: ?Sized + Hash + Eq>(&self, q: &Q) -> Option<usize> where K: Borrow<Q> {
            let hq = h(&self.hasher, q);
            let mut i = 0;
            while i < CAP {
                if let Some((hh, k, _)) = &self.items[i] { if *hh == hq && k.borrow() == q { return Some(i); } }
                i += 1;
            }
            None
        }
        pub fn get<Q: ?Sized + Hash + Eq>(&self, q: &Q) -> Option<&V> where K: Borrow<Q> {
            match self.pos(q) { Some(i) => self.items[i].as_ref().map(|e| &e.2), None => None }
        }
        pub fn get_mut<Q: ?Sized + Hash + Eq>(&mut self, q: &Q) -> Option<&mut V> where K: Borrow<Q> {
            match self.pos(q) { Some(i) => self.items[i].as_mut().map(|e| &mut e.2), None => None }
        }
        pub fn contains_key<Q: ?Sized + Hash + Eq>(&self, q: &Q) -> bool where K: Borrow<Q> { self.pos(q).is_some() }
        pub fn remove<Q: ?Sized + Hash + Eq>(&mut self, q: &Q) -> Option<V> where K: Borrow<Q> {
            match self.pos(q) { Some(i) => self.items[i].take().map(|e| e.2), None => None }
        }
        pub fn insert(&mut self, k: K, v: V) -> Option<V> {
            match self.pos(&k) {
                Some(i) => Some(std::mem::replace(&mut self.items[i].as_mut().unwrap().2, v)),
                None => { let hk = h(&self.hasher, &k); let f = self.free(); self.items[f] = Some((hk, k, v)); None }
            }
        }
        fn free(&self) -> usize { let mut i = 0; while i < CAP { if self.items[i].is_none() { return i; } i += 1; } panic!("model map capacity exceeded") }
        pub fn entry(&mut self, k: K) -> Entry<'_, K, V, S> {
            match self.pos(&k) {
                Some(i) => Entry::Occupied(OccupiedEntry { map: self, idx: i }),
                None => Entry::Vacant(VacantEntry { map: self, key: k }),
            }
        }
    }

    pub enum Entry<'a, K, V, S> { Occupied(OccupiedEntry<'a, K, V, S>), Vacant(VacantEntry<'a, K, V, S>) }
    pub struct OccupiedEntry<'a, K, V, S> { map: &'a mut HashMap<K, V, S>, idx: usize }
    pub struct VacantEntry<'a, K, V, S> { map: &'a mut HashMap<K, V, S>, key: K }

    impl<'a, K: Eq + Hash, V, S: BuildHasher> Entry<'a, K, V, S> {
        pub fn or_insert(self, default: V) -> &'a mut V {
            match self { Entry::Occupied(e) => e.into_mut(), Entry::Vacant(e) => e.insert(default) }
        }
        pub fn or_default(self) -> &'a mut V where V: Default {
            match self { Entry::Occupied(e) => e.into_mut(), Entry::Vacant(e) => e.insert(V::default()) }
        }
    }
    impl<'a, K, V, S> OccupiedEntry<'a, K, V, S> {
        pub fn into_mut(self) -> &'a mut V { &mut self.map.items[self.idx].as_mut().unwrap().2 }
    }
    impl<'a, K: Eq + Hash, V, S: BuildHasher> VacantEntry<'a, K, V, S> {
        pub fn insert(self, v: V) -> &'a mut V {
            let hk = h(&self.map.hasher, &self.key);
            let n = self.map.free();
            self.map.items[n] = Some((hk, self.key, v));
            &mut self.map.items[n].as_mut().unwrap().2
        }
    }
    impl<'a, K, V, S> IntoIterator for &'a HashMap<K, V, S> {
        type Item = (&'a K, &'a V);
        type IntoIter = std::iter::FilterMap<std::slice::Iter<'a, Option<(u64, K, V)>>, fn(&'a Option<(u64, K, V)>) -> Option<(&'a K, &'a V)>>;
        fn into_iter(self) -> Self::IntoIter { fn f<'b, K, V>(e: &'b Option<(u64, K, V)>) -> Option<(&'b K, &'b V)> { e.as_ref().map(|(_, k, v)| (k, v)) } self.items.iter().filter_map(f::<K, V> as fn(&'a Option<(u64, K, V)>) -> Option<(&'a K, &'a V)>) }
    }
    impl<K: std::fmt::Debug, V: std::fmt::Debug, S> std::fmt::Debug for HashMap<K, V, S> {
        fn fmt(&self, f: &mut std::fmt::Formatter<'_>) -> std::fmt::Result { f.write_str("HashMap{..}") }
    }

    pub struct HashSet<T, S> { map: HashMap<T, (), S> }
    impl<T, S> HashSet<T, S> {
        pub fn with_hasher(hasher: S) -> Self { Self { map: HashMap::with_hasher(hasher) } }
        pub fn clear(&mut self) { self.map.clear(); }
        pub fn len(&self) -> usize { self.map.len() }
        pub fn iter(&self) -> impl Iterator<Item = &T> { self.map.items.iter().filter_map(|e| e.as_ref().map(|(_, k, _)| k)) }
    }
    impl<T: Eq + Hash, S: BuildHasher> HashSet<T, S> {
        pub fn insert(&mut self, t: T) -> bool { self.map.insert(t, ()).is_none() }
        pub fn remove<Q: ?Sized + Hash + Eq>(&mut self, q: &Q) -> bool where T: Borrow<Q> { self.map.remove(q).is_some() }
        pub fn contains<Q: ?Sized + Hash + Eq>(&self, q: &Q) -> bool where T: Borrow<Q> { self.map.contains_key(q) }
        pub fn difference<'a>(&'a self, other: &'a Self) -> impl Iterator<Item = &'a T> + 'a {
            self.iter().filter(move |t| !other.contains(*t))
        }
    }
    impl<T: std::fmt::Debug, S> std::fmt::Debug for HashSet<T, S> {
        fn fmt(&self, f: &mut std::fmt::Formatter<'_>) -> std::fmt::Result { f.write_str("HashSet{..}") }
    }
}

// Ghost accessors on the crate's lock wrappers (model build only).
#[cfg(feature = "parking_lot")]
#[allow(dead_code)]
impl<T: ?Sized> RwLock<T> {
    pub(crate) fn verif_readers(&self) -> usize { self.0.model_readers() }
    pub(crate) fn verif_writer(&self) -> bool { self.0.model_writer() }
    pub(crate) fn verif_addr(&self) -> usize { &self.0 as *const _ as *const u8 as usize }
}
