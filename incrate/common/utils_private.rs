// Verification model of std::collections::{HashMap, HashSet} (DESIGN.md §4.3): fixed-capacity slot array.
//  * lookup(q) finds entry e  iff  hash(e.key) == hash(q) && e.key.borrow() == q   (as in any real table:
//    a Hash/Eq disagreement between the owned and the borrowed key form shows up as a miss);
//  * (adversarial mode) an insert may relocate existing entries: their (key, value) pair is moved to a fresh
//    allocation and the old one is freed, as a growing real table does, so a reference derived from the
//    table's storage instead of the boxed asset dangles (CBMC's pointer checks fire); the slot used for a
//    new entry is chosen by the solver (arbitrary iteration order);
//  * exceeding CAP entries is outside the model bound: the path is cut with assume(false) and
//    MODEL_MAP_OVERFLOW records it.
// Layout: an array of CAP thin pointers to separately allocated nodes (no large aggregates, no unions:
// both are expensive for CBMC's byte-level encoding).
pub mod model_collections {
    use std::borrow::Borrow;
    use std::hash::{BuildHasher, Hash, Hasher};

    pub static mut MODEL_MAP_OVERFLOW: bool = false;
    pub static mut MODEL_MAP_ADVERSARIAL: bool = false;

    const fn cap_from_env() -> usize {
        match option_env!("VERIF_MAP_CAP") {
            Some(s) => { let b = s.as_bytes(); if b.len() == 1 && b[0] >= b'1' && b[0] <= b'9' { (b[0] - b'0') as usize } else { 4 } }
            None => 4,
        }
    }
    pub const CAP: usize = cap_from_env();

    fn h<S: BuildHasher, Q: Hash + ?Sized>(s: &S, q: &Q) -> u64 {
        let mut st = s.build_hasher();
        q.hash(&mut st);
        st.finish()
    }

    struct Node<K, V> { hash: u64, key: K, val: V }

    pub struct HashMap<K, V, S> { slots: [*mut Node<K, V>; CAP], hasher: S }
    unsafe impl<K: Send, V: Send, S: Send> Send for HashMap<K, V, S> {}
    unsafe impl<K: Sync, V: Sync, S: Sync> Sync for HashMap<K, V, S> {}

    impl<K, V, S> Drop for HashMap<K, V, S> {
        fn drop(&mut self) { self.clear(); }
    }

    impl<K, V, S> HashMap<K, V, S> {
        pub fn with_hasher(hasher: S) -> Self { Self { slots: [std::ptr::null_mut(); CAP], hasher } }
        pub fn with_capacity_and_hasher(_c: usize, hasher: S) -> Self { Self::with_hasher(hasher) }
        pub fn clear(&mut self) {
            let mut i = 0;
            while i < CAP {
                let p = self.slots[i];
                if !p.is_null() {
                    self.slots[i] = std::ptr::null_mut();
                    drop(unsafe { Box::from_raw(p) });
                }
                i += 1;
            }
        }
        pub fn len(&self) -> usize { let mut n = 0; let mut i = 0; while i < CAP { if !self.slots[i].is_null() { n += 1; } i += 1; } n }
        pub fn is_empty(&self) -> bool { self.len() == 0 }
        pub fn iter(&self) -> Iter<'_, K, V, S> { Iter { map: self, pos: 0 } }
        pub fn keys(&self) -> impl Iterator<Item = &K> { self.iter().map(|(k, _)| k) }
        pub fn values(&self) -> impl Iterator<Item = &V> { self.iter().map(|(_, v)| v) }
        pub fn hasher(&self) -> &S { &self.hasher }
        /// removes and yields every pair (std `drain`)
        pub fn drain(&mut self) -> std::vec::IntoIter<(K, V)> {
            let mut out = Vec::with_capacity(CAP);
            let mut i = 0;
            while i < CAP {
                if !self.slots[i].is_null() { out.push(self.take_slot(i)); }
                i += 1;
            }
            out.into_iter()
        }
        #[inline] fn node(&self, i: usize) -> &Node<K, V> { unsafe { &*self.slots[i] } }
        #[inline] fn node_mut(&mut self, i: usize) -> &mut Node<K, V> { unsafe { &mut *self.slots[i] } }
        fn relocate(&mut self, a: usize, b: usize) {
            if a < CAP && b < CAP {
                // move slot a's pair to a fresh allocation (the old storage is freed) and exchange the slots
                let p = self.slots[a];
                if !p.is_null() {
                    let n = unsafe { Box::from_raw(p) };
                    self.slots[a] = Box::into_raw(Box::new(*n));
                }
                self.slots.swap(a, b);
            }
        }
        fn free(&mut self) -> usize {
            if unsafe { MODEL_MAP_ADVERSARIAL } {
                if kani::any() { self.relocate(0, 1); }
                if kani::any() { self.relocate(1, 2); }
                let k: usize = kani::any();
                if k < CAP && self.slots[k].is_null() { return k; }
            }
            let mut i = 0;
            while i < CAP { if self.slots[i].is_null() { return i; } i += 1; }
            unsafe { MODEL_MAP_OVERFLOW = true; }
            kani::assume(false);
            0
        }
        fn put(&mut self, i: usize, hash: u64, key: K, val: V) {
            self.slots[i] = Box::into_raw(Box::new(Node { hash, key, val }));
        }
        fn take_slot(&mut self, i: usize) -> (K, V) {
            let n = unsafe { Box::from_raw(self.slots[i]) };
            self.slots[i] = std::ptr::null_mut();
            let Node { key, val, .. } = *n;
            (key, val)
        }
    }

    pub struct Iter<'a, K, V, S> { map: &'a HashMap<K, V, S>, pos: usize }
    impl<'a, K, V, S> Iterator for Iter<'a, K, V, S> {
        type Item = (&'a K, &'a V);
        fn next(&mut self) -> Option<Self::Item> {
            while self.pos < CAP {
                let i = self.pos;
                self.pos += 1;
                if !self.map.slots[i].is_null() { let n = self.map.node(i); return Some((&n.key, &n.val)); }
            }
            None
        }
    }

    impl<K: Eq + Hash, V, S: BuildHasher> HashMap<K, V, S> {
        fn pos<Q: ?Sized + Hash + Eq>(&self, q: &Q) -> Option<usize> where K: Borrow<Q> {
            let hq = h(&self.hasher, q);
            let mut i = 0;
            while i < CAP {
                if !self.slots[i].is_null() {
                    let n = self.node(i);
                    // adversarial mode: hash collisions between different keys are legal in any hash table, so
                    // equality alone must be able to tell keys apart (a too-weak Eq then finds a foreign entry)
                    let same_hash = n.hash == hq || (unsafe { MODEL_MAP_ADVERSARIAL } && kani::any::<bool>());
                    if same_hash && n.key.borrow() == q { return Some(i); }
                }
                i += 1;
            }
            None
        }
        pub fn get<Q: ?Sized + Hash + Eq>(&self, q: &Q) -> Option<&V> where K: Borrow<Q> {
            match self.pos(q) { Some(i) => Some(&self.node(i).val), None => None }
        }
        pub fn get_mut<Q: ?Sized + Hash + Eq>(&mut self, q: &Q) -> Option<&mut V> where K: Borrow<Q> {
            match self.pos(q) { Some(i) => Some(&mut self.node_mut(i).val), None => None }
        }
        pub fn contains_key<Q: ?Sized + Hash + Eq>(&self, q: &Q) -> bool where K: Borrow<Q> { self.pos(q).is_some() }
        pub fn remove<Q: ?Sized + Hash + Eq>(&mut self, q: &Q) -> Option<V> where K: Borrow<Q> {
            match self.pos(q) { Some(i) => { let (_k, v) = self.take_slot(i); Some(v) } None => None }
        }
        pub fn insert(&mut self, k: K, v: V) -> Option<V> {
            match self.pos(&k) {
                Some(i) => Some(std::mem::replace(&mut self.node_mut(i).val, v)),
                None => { let hk = h(&self.hasher, &k); let f = self.free(); self.put(f, hk, k, v); None }
            }
        }
        pub fn entry(&mut self, k: K) -> Entry<'_, K, V, S> {
            match self.pos(&k) {
                Some(i) => Entry::Occupied(OccupiedEntry { map: self, idx: i }),
                None => Entry::Vacant(VacantEntry { map: self, key: k }),
            }
        }
    }

    pub enum Entry<'a, K, V, S> { Occupied(OccupiedEntry<'a, K, V, S>), Vacant(VacantEntry<'a, K, V, S>) }
    pub struct OccupiedEntry<'a, K, V, S> { map: &'a mut HashMap<K, V, S>, idx: usize }
    pub struct VacantEntry<'a, K, V, S> { map: &'a mut HashMap<K, V, S>, key: K }

    impl<'a, K: Eq + Hash, V, S: BuildHasher> Entry<'a, K, V, S> {
        pub fn or_insert(self, default: V) -> &'a mut V {
            match self { Entry::Occupied(e) => e.into_mut(), Entry::Vacant(e) => e.insert(default) }
        }
        pub fn or_insert_with<F: FnOnce() -> V>(self, f: F) -> &'a mut V {
            match self { Entry::Occupied(e) => e.into_mut(), Entry::Vacant(e) => e.insert(f()) }
        }
        pub fn or_default(self) -> &'a mut V where V: Default {
            match self { Entry::Occupied(e) => e.into_mut(), Entry::Vacant(e) => e.insert(V::default()) }
        }
    }
    impl<'a, K, V, S> OccupiedEntry<'a, K, V, S> {
        pub fn into_mut(self) -> &'a mut V { &mut self.map.node_mut(self.idx).val }
        pub fn get(&self) -> &V { &self.map.node(self.idx).val }
        pub fn get_mut(&mut self) -> &mut V { &mut self.map.node_mut(self.idx).val }
        pub fn insert(&mut self, v: V) -> V { std::mem::replace(&mut self.map.node_mut(self.idx).val, v) }
    }
    impl<'a, K: Eq + Hash, V, S: BuildHasher> VacantEntry<'a, K, V, S> {
        pub fn insert(self, v: V) -> &'a mut V {
            let hk = h(&self.map.hasher, &self.key);
            let n = self.map.free();
            self.map.put(n, hk, self.key, v);
            &mut self.map.node_mut(n).val
        }
    }
    impl<K: Eq + Hash + Borrow<Q>, Q: ?Sized + Eq + Hash, V, S: BuildHasher> std::ops::Index<&Q> for HashMap<K, V, S> {
        type Output = V;
        fn index(&self, q: &Q) -> &V { self.get(q).expect("no entry found for key") }
    }
    impl<'a, K, V, S> IntoIterator for &'a HashMap<K, V, S> {
        type Item = (&'a K, &'a V);
        type IntoIter = Iter<'a, K, V, S>;
        fn into_iter(self) -> Self::IntoIter { self.iter() }
    }
    impl<K, V, S> std::fmt::Debug for HashMap<K, V, S> {
        fn fmt(&self, f: &mut std::fmt::Formatter<'_>) -> std::fmt::Result { f.write_str("HashMap{..}") }
    }

    pub struct HashSet<T, S> { map: HashMap<T, u8, S> }
    pub struct SetIter<'a, T, S> { it: Iter<'a, T, u8, S> }
    impl<'a, T, S> Iterator for SetIter<'a, T, S> {
        type Item = &'a T;
        fn next(&mut self) -> Option<&'a T> { self.it.next().map(|(k, _)| k) }
    }
    impl<T, S> HashSet<T, S> {
        pub fn with_hasher(hasher: S) -> Self { Self { map: HashMap::with_hasher(hasher) } }
        pub fn clear(&mut self) { self.map.clear(); }
        pub fn len(&self) -> usize { self.map.len() }
        pub fn is_empty(&self) -> bool { self.map.len() == 0 }
        pub fn iter(&self) -> SetIter<'_, T, S> { SetIter { it: self.map.iter() } }
        pub fn drain(&mut self) -> impl Iterator<Item = T> { self.map.drain().map(|(k, _)| k) }
    }
    impl<'a, T, S> IntoIterator for &'a HashSet<T, S> {
        type Item = &'a T;
        type IntoIter = SetIter<'a, T, S>;
        fn into_iter(self) -> Self::IntoIter { self.iter() }
    }
    impl<T: Eq + Hash, S: BuildHasher> HashSet<T, S> {
        pub fn insert(&mut self, t: T) -> bool {
            if self.map.contains_key(&t) { return false; }
            self.map.insert(t, 0).is_none()
        }
        pub fn remove<Q: ?Sized + Hash + Eq>(&mut self, q: &Q) -> bool where T: Borrow<Q> { self.map.remove(q).is_some() }
        pub fn contains<Q: ?Sized + Hash + Eq>(&self, q: &Q) -> bool where T: Borrow<Q> { self.map.contains_key(q) }
        pub fn difference<'a>(&'a self, other: &'a Self) -> impl Iterator<Item = &'a T> + 'a {
            self.iter().filter(move |t| !other.contains(*t))
        }
    }
    impl<T, S> std::fmt::Debug for HashSet<T, S> {
        fn fmt(&self, f: &mut std::fmt::Formatter<'_>) -> std::fmt::Result { f.write_str("HashSet{..}") }
    }
}

// Ghost accessors on the crate's lock wrappers (model build only).
#[cfg(feature = "parking_lot")]
#[allow(dead_code)]
impl<T: ?Sized> RwLock<T> {
    pub(crate) fn verif_readers(&self) -> usize { self.0.model_readers() }
    pub(crate) fn verif_writer(&self) -> bool { self.0.model_writer() }
    pub(crate) fn verif_addr(&self) -> usize { &self.0 as *const _ as *const u8 as usize }
}
#[cfg(feature = "parking_lot")]
#[allow(dead_code)]
impl<T: ?Sized> Mutex<T> {
    pub(crate) fn verif_data_ptr(&self) -> *mut T { self.0.model_data_ptr() }
    pub(crate) fn verif_locked(&self) -> bool { self.0.model_locked() }
}
#[cfg(feature = "parking_lot")]
#[allow(dead_code)]
impl Condvar {
    pub(crate) fn verif_epoch(&self) -> usize { self.0.model_epoch() }
    pub(crate) fn verif_waiters(&self) -> usize { self.0.model_waiters() }
}
