// Ghost accessors for harnesses living outside this module (model build only).
#[cfg(kani)]
#[allow(dead_code)]
impl Dependencies {
    pub(crate) fn verif_insert(&mut self, d: Dependency) -> bool { self.0.insert(d) }
    pub(crate) fn verif_contains(&self, d: &Dependency) -> bool { self.0.contains(d) }
    pub(crate) fn verif_len(&self) -> usize { self.0.len() }
}
#[cfg(kani)]
#[allow(dead_code)]
pub(crate) fn verif_recording_is_none() -> bool { RECORDING.with(|r| r.get().is_none()) }
