// Shared harness vocabulary for entry-level harnesses.
#[cfg(kani)]
#[allow(dead_code)]
pub(crate) mod verif_entry_common {
    use crate::{AnyCache, BoxedError, Compound, SharedString, Storable};

    /// Hot-reloadable wrapper (`HOT_RELOADED = true` through the `Compound` blanket impl).
    pub struct Dy<T>(pub T);
    impl<T: Clone> Clone for Dy<T> { fn clone(&self) -> Self { Dy(self.0.clone()) } }
    impl<T: Copy> Copy for Dy<T> {}
    impl<T: Send + Sync + 'static> Compound for Dy<T> {
        fn load(_: AnyCache, _: &SharedString) -> Result<Self, BoxedError> { Err("never loaded".into()) }
    }
    /// Not hot-reloadable wrapper (`Storable` only).
    pub struct St<T>(pub T);
    impl<T: Send + Sync + 'static> Storable for St<T> {}

    /// Value with a ghost drop ledger: `DROPS[id]` counts drops of the value tagged `id`.
    pub static mut DROPS: [u8; 8] = [0; 8];
    /// Ghost clock sampled at drop time (set by harnesses that order drops against lock events).
    pub static mut CLOCK: usize = 0;
    pub static mut DROP_AT: [usize; 8] = [0; 8];
    pub struct Tr(pub u8, pub u64);
    impl Drop for Tr {
        fn drop(&mut self) {
            unsafe {
                DROPS[self.0 as usize] += 1;
                DROP_AT[self.0 as usize] = CLOCK;
            }
        }
    }
    pub fn drops(id: u8) -> u8 { unsafe { DROPS[id as usize] } }

    pub fn sid(s: &str) -> SharedString { SharedString::from(s) }
}

// Ghost observers on handles (model build only).
#[cfg(kani)]
#[allow(dead_code)]
impl<T> Handle<T> {
    pub(crate) fn inner_is_static(&self) -> bool { self.inner.dynamic.is_none() }
}
#[cfg(kani)]
#[allow(dead_code)]
impl<T: std::ops::Deref> Handle<T> { }
