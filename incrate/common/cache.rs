// Ghost constructor: an AssetMap with a single shard, for harnesses that only need its address
// or a cheap concrete map (model build only).
#[cfg(kani)]
#[allow(dead_code)]
impl AssetMap {
    pub(crate) fn verif_single_shard() -> AssetMap {
        let hash_builder = RandomState::new();
        let shards: Box<[Shard]> = Box::new([Shard(RwLock::new(HashMap::with_hasher(hash_builder.clone())))]);
        AssetMap { hash_builder, shards }
    }
}

// Ghost constructors: caches over a single-shard map, with a thread-less reloader or none.
#[cfg(kani)]
#[allow(dead_code)]
impl<S: Source> AssetCache<S> {
    pub(crate) fn verif_new(source: S, reloader: Option<HotReloader>) -> AssetCache<S> {
        AssetCache { reloader, assets: AssetMap::verif_single_shard(), source }
    }
}

#[cfg(kani)]
#[allow(dead_code)]
impl AssetMap {
    /// Ghost constructor: two shards (shard selection becomes observable).
    pub(crate) fn verif_two_shards() -> AssetMap {
        let hash_builder = RandomState::new();
        let shards: Box<[Shard]> = Box::new([
            Shard(RwLock::new(HashMap::with_hasher(hash_builder.clone()))),
            Shard(RwLock::new(HashMap::with_hasher(hash_builder.clone()))),
        ]);
        AssetMap { hash_builder, shards }
    }
}
