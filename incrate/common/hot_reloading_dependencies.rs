// Ghost constructor of graph nodes for harnesses outside this module (model build only).
#[cfg(kani)]
#[allow(dead_code)]
impl DepsGraph {
    pub(crate) fn verif_add_file_node(&mut self, id: &str, ext: &str) {
        self.0.insert(Dependency::File(crate::SharedString::from(id), crate::SharedString::from(ext)), GraphNode::default());
    }
}
