// Shared cache-level harness vocabulary (model build only): an in-memory Source with solver-chosen
// outcomes, harness asset types, ghost cache constructors.
#[cfg(kani)]
#[allow(dead_code)]
pub(crate) mod verif_world {
    use crate::source::{DirEntry, FileContent, Source};
    use crate::{loader::Loader, Asset, BoxedError, SharedString};
    use std::borrow::Cow;
    use std::cell::Cell;
    use std::io;

    /// Outcome of reading one (id, ext) pair.
    #[derive(Clone, Copy, PartialEq)]
    pub enum Out {
        Absent,
        /// unreadable with this error kind index (see `kind_of`)
        Unreadable(u8),
        /// content = [b0, b1][..len] delivered as FileContent variant `how` (0 slice, 1 buffer, 2 owned)
        Data { b0: u8, b1: u8, len: u8, how: u8 },
    }
    pub fn kind_of(k: u8) -> io::ErrorKind {
        match k { 0 => io::ErrorKind::PermissionDenied, 1 => io::ErrorKind::InvalidData, _ => io::ErrorKind::Other }
    }
    /// Ghost: addresses of the conversion errors the harness loader created (oracle without virtual calls).
    pub static mut CONV_ERRS: [usize; 4] = [0; 4];
    pub static mut N_CONV: usize = 0;
    /// Classifies a boxed error without any virtual call: 3 = the harness loader's conversion error,
    /// 0 = the zero-sized NoDefaultValueError, otherwise an io::Error (2, or 1 for NotFound).
    pub fn rank_of(e: &BoxedError) -> u8 {
        let p = &**e as *const (dyn std::error::Error + Send + Sync) as *const u8 as usize;
        let mut i = 0;
        while i < 4 { if unsafe { CONV_ERRS[i] } == p && p != 0 { return 3; } i += 1; }
        if std::mem::size_of_val(&**e) == 0 { return 0; }
        let io = unsafe { &*(p as *const io::Error) };
        if io.kind() == io::ErrorKind::NotFound { 1 } else { 2 }
    }
    pub fn any_out_how(how: u8) -> Out {
        match any_out() { Out::Data { b0, b1, len, .. } => Out::Data { b0, b1, len, how }, o => o }
    }
    pub fn any_out() -> Out {
        let t: u8 = kani::any();
        kani::assume(t < 3);
        match t {
            0 => Out::Absent,
            1 => { let k: u8 = kani::any(); kani::assume(k < 3); Out::Unreadable(k) }
            _ => {
                let (b0, b1, len, how): (u8, u8, u8, u8) = (kani::any(), kani::any(), kani::any(), kani::any());
                kani::assume(len <= 2 && how < 3);
                Out::Data { b0, b1, len, how }
            }
        }
    }

    /// In-memory source: ids "a","b","c" x extensions "x","y","z" (index = id*3 + ext); everything else absent.
    pub struct Mem {
        pub files: [Cell<Out>; 9],
        pub reads: Cell<usize>,
        /// the k-th read (0-based) fails with an I/O error when Some(k)
        pub fail_at: Cell<Option<(usize, u8)>>,
        pub bufs: [[u8; 2]; 9],
    }
    fn id_ix(id: &str) -> Option<usize> { match id { "a" => Some(0), "b" => Some(1), "c" => Some(2), _ => None } }
    fn ext_ix(ext: &str) -> Option<usize> { match ext { "x" => Some(0), "y" => Some(1), "z" => Some(2), _ => None } }
    impl Mem {
        pub fn empty() -> Mem {
            Mem { files: [const { Cell::new(Out::Absent) }; 9], reads: Cell::new(0), fail_at: Cell::new(None), bufs: [[0; 2]; 9] }
        }
        pub fn set(&mut self, id: usize, ext: usize, o: Out) {
            self.files[id * 3 + ext].set(o);
            if let Out::Data { b0, b1, .. } = o { self.bufs[id * 3 + ext] = [b0, b1]; }
        }
    }
    struct OwnedBytes([u8; 2], usize);
    impl AsRef<[u8]> for OwnedBytes { fn as_ref(&self) -> &[u8] { &self.0[..self.1] } }
    impl Source for Mem {
        fn read(&self, id: &str, ext: &str) -> io::Result<FileContent> {
            let n = self.reads.get();
            self.reads.set(n + 1);
            if let Some((k, kind)) = self.fail_at.get() { if k == n { return Err(io::Error::from(kind_of(kind))); } }
            let ix = match (id_ix(id), ext_ix(ext)) { (Some(i), Some(e)) => i * 3 + e, _ => return Err(io::Error::from(io::ErrorKind::NotFound)) };
            match self.files[ix].get() {
                Out::Absent => Err(io::Error::from(io::ErrorKind::NotFound)),
                Out::Unreadable(k) => Err(io::Error::from(kind_of(k))),
                Out::Data { b0, b1, len, how } => Ok(match how {
                    0 => FileContent::Slice(&self.bufs[ix][..len as usize]),
                    1 => { let mut v = Vec::with_capacity(2); if len >= 1 { v.push(b0); } if len >= 2 { v.push(b1); } FileContent::Buffer(v) }
                    _ => FileContent::from_owned(OwnedBytes([b0, b1], len as usize)),
                }),
            }
        }
        fn read_dir(&self, _id: &str, _f: &mut dyn FnMut(DirEntry)) -> io::Result<()> { Err(io::Error::from(io::ErrorKind::NotFound)) }
        fn exists(&self, _entry: DirEntry) -> bool { false }
    }

    /// Conversion error of the harness loader.
    #[derive(Debug)]
    pub struct Undecodable(pub u8);
    impl std::fmt::Display for Undecodable { fn fmt(&self, f: &mut std::fmt::Formatter<'_>) -> std::fmt::Result { f.write_str("undecodable") } }
    impl std::error::Error for Undecodable {}

    /// Loader: decodes `[b0, b1][..len]` into (len, b0, b1, ext-index); a first byte 0xFF is undecodable.
    pub struct L;
    #[derive(Clone, Copy, PartialEq, Debug)]
    pub struct Val { pub len: u8, pub b0: u8, pub b1: u8, pub ext: u8 }
    pub fn decode(bytes: &[u8], ext: &str) -> Result<Val, BoxedError> {
        let len = bytes.len();
        let b0 = if len >= 1 { bytes[0] } else { 0 };
        let b1 = if len >= 2 { bytes[1] } else { 0 };
        if len >= 1 && b0 == 0xFF {
            let e = Box::new(Undecodable(1));
            unsafe { if N_CONV < 4 { CONV_ERRS[N_CONV] = &*e as *const Undecodable as usize; N_CONV += 1; } }
            return Err(e);
        }
        Ok(Val { len: len as u8, b0, b1, ext: ext_ix(ext).map_or(9, |e| e as u8) })
    }
    macro_rules! asset_ty {
        ($name:ident, $exts:expr, $hot:expr) => {
            #[derive(Clone, Copy, PartialEq, Debug)]
            pub struct $name(pub Val);
            impl Loader<$name> for L {
                fn load(content: Cow<[u8]>, ext: &str) -> Result<$name, BoxedError> { decode(&content, ext).map($name) }
            }
            impl Asset for $name {
                const EXTENSIONS: &'static [&'static str] = $exts;
                type Loader = L;
                const HOT_RELOADED: bool = $hot;
            }
        };
    }
    asset_ty!(X0, &[], true);
    asset_ty!(X1, &["x"], true);
    asset_ty!(X2, &["x", "y"], true);
    asset_ty!(X3, &["x", "y", "z"], true);
    asset_ty!(N1, &["x"], false);
    impl crate::asset::NotHotReloaded for N1 {}

    /// Asset with a default value (tag 0xD0 marks the default).
    #[derive(Clone, Copy, PartialEq, Debug)]
    pub struct Dflt(pub Val);
    impl Loader<Dflt> for L {
        fn load(content: Cow<[u8]>, ext: &str) -> Result<Dflt, BoxedError> { decode(&content, ext).map(Dflt) }
    }
    impl Asset for Dflt {
        const EXTENSIONS: &'static [&'static str] = &["x", "y"];
        type Loader = L;
        fn default_value(_id: &SharedString, error: BoxedError) -> Result<Self, BoxedError> {
            std::mem::forget(error);
            Ok(Dflt(Val { len: 0xD0, b0: 0, b1: 0, ext: 0 }))
        }
    }
}
