// C06 (entry level) — reload id starts at NEVER, +1 per successful write and never otherwise;
// watchers / reloaded_global report true exactly when >= 1 write happened since last asked.
#[cfg(kani)]
mod verif_c06 {
    use super::verif_entry_common::*;
    use super::*;

    // @h name=c06_entry_counters tier=quick timeout=900
    #[kani::proof]
    #[kani::unwind(7)]
    fn c06_entry_counters() { counters_case(5); }

    // @h name=c06_entry_count7 tier=thorough timeout=3600 mem=24
    #[kani::proof]
    #[kani::unwind(9)]
    fn c06_entry_count7() { counters_case(7); }

    // @h name=c06_entry_count10 tier=thorough timeout=5400 mem=32
    #[kani::proof]
    #[kani::unwind(12)]
    fn c06_entry_count10() { counters_case(10); }

    fn counters_case(steps: usize) {
        let (a0, b0): (u64, u64) = (kani::any(), kani::any());
        let e = CacheEntry::new(Dy((a0, b0)), sid("a"), || true);
        let uh: &UntypedHandle = e.inner();
        let th: &Handle<Dy<(u64, u64)>> = uh.downcast_ref().unwrap();
        assert!(uh.inner.dynamic.is_some());
        assert_eq!(th.last_reload_id(), ReloadId::NEVER);
        assert_eq!(uh.last_reload_id(), ReloadId::NEVER);
        assert!(!th.reloaded_global());
        let mut w1 = th.reload_watcher();
        let mut w2 = uh.reload_watcher();
        assert!(!w1.reloaded());
        let (mut writes, mut w1_seen, mut w2_seen, mut g_seen) = (0usize, 0usize, 0usize, 0usize);
        let (mut cur_a, mut cur_b) = (a0, b0);
        let mut i = 0;
        while i < steps {
            let op: u8 = kani::any();
            kani::assume(op < 6);
            match op {
                0 => {
                    let (na, nb): (u64, u64) = (kani::any(), kani::any());
                    uh.write(CacheEntry::new(Dy((na, nb)), sid("a"), || false));
                    writes += 1;
                    cur_a = na;
                    cur_b = nb;
                }
                1 => { assert_eq!(w1.reloaded(), writes > w1_seen); w1_seen = writes; }
                2 => { assert_eq!(w2.reloaded(), writes > w2_seen); w2_seen = writes; }
                3 => { assert_eq!(th.reloaded_global(), writes > g_seen); g_seen = writes; }
                4 => { assert_eq!(uh.reloaded_global(), writes > g_seen); g_seen = writes; }
                _ => {
                    // a fresh watcher starts at the current id
                    let mut w3 = th.reload_watcher();
                    assert!(!w3.reloaded());
                    assert_eq!(w3.last_reload_id().0, writes);
                }
            }
            // after every step: id == number of successful writes; the value is the last written
            assert_eq!(th.last_reload_id().0, writes);
            assert_eq!(uh.last_reload_id().0, writes);
            assert_eq!(w1.last_reload_id().0, writes);
            let g = th.read();
            assert!(g.0 .0 == cur_a && g.0 .1 == cur_b);
            drop(g);
            i += 1;
        }
        kani::cover!(writes == steps);
        kani::cover!(writes == 2 && w1_seen == 1 && g_seen == 2);
        std::mem::forget(e);
    }

    // @h name=c06_entry_static tier=quick
    #[kani::proof]
    #[kani::unwind(4)]
    fn c06_entry_static() {
        // static entries (non-reloadable type, or cache without reloader): id NEVER, watchers false
        let which: bool = kani::any();
        let v: u64 = kani::any();
        if which {
            let e = CacheEntry::new(St(v), sid("a"), || true);
            let h: &Handle<St<u64>> = e.inner().downcast_ref().unwrap();
            assert!(e.inner().inner.dynamic.is_none());
            let mut w = h.reload_watcher();
            assert!(!w.reloaded() && !h.reloaded_global());
            assert_eq!(h.last_reload_id(), ReloadId::NEVER);
            assert_eq!(w.last_reload_id(), ReloadId::NEVER);
            assert_eq!(h.read().0, v);
            std::mem::forget(e);
        } else {
            let e = CacheEntry::new(Dy(v), sid("a"), || false);
            let h: &Handle<Dy<u64>> = e.inner().downcast_ref().unwrap();
            assert!(e.inner().inner.dynamic.is_none());
            let mut w = e.inner().reload_watcher();
            assert!(!w.reloaded() && !e.inner().reloaded_global());
            assert_eq!(e.inner().last_reload_id(), ReloadId::NEVER);
            assert_eq!(h.read().0, v);
            std::mem::forget(e);
        }
        let mut d = ReloadWatcher::default();
        assert!(!d.reloaded());
        assert_eq!(d.last_reload_id(), ReloadId::NEVER);
        kani::cover!(which);
        kani::cover!(!which);
    }
}
