// C06 — a notification is consumed by exactly one update pass: after every pass (local, static, and the
// switch to static mode) nothing stays pending, so the next unrelated event cannot replay it.
// File-only graph (file keys constant-fold; no asset node is needed to observe the pending set).
#[cfg(kani)]
mod verif_c06_paths {
    use super::*;
    use crate::source::OwnedDirEntry;

    fn file(id: &str) -> OwnedDirEntry { OwnedDirEntry::File(SharedString::from(id), SharedString::from("x")) }

    fn data_with_known_file() -> HotReloadingData {
        let source: Box<dyn Source> = Box::new(crate::source::Empty);
        let mut d = HotReloadingData::new(source);
        d.deps.verif_add_file_node("f", "x");
        d
    }

    fn pending_case(how: u8) {
        let map: &'static AssetMap = Box::leak(Box::new(AssetMap::verif_single_shard()));
        let reloader: &'static crate::hot_reloading::HotReloader = Box::leak(Box::new(crate::hot_reloading::HotReloader::verif_new()));
        let mut d = data_with_known_file();
        // local mode: an event for a recorded entry is remembered until the next pass
        d.handle_events(super::super::Events::Single(file("f")));
        assert!(d.to_reload.len() == 1, "an event for a recorded entry was lost");
        match how {
            0 => d.update_if_local(map, reloader),           // hot_reload()
            1 => d.use_static_ref(map, reloader),            // enhance_hot_reloading() with a notification pending
            _ => { d.clear_local_cache(); }                 // AssetCache::clear()
        }
        assert!(d.to_reload.is_empty(), "a notification stays pending after the pass that applied it: the next event replays it");
        std::mem::forget(d);
    }

    // @h name=c06_pending_after_hot_reload tier=parked cap=1 timeout=400
    #[kani::proof]
    #[kani::unwind(4)]
    fn c06_pending_after_hot_reload() { pending_case(0); kani::cover!(true); }
    // @h name=c06_pending_after_static_switch tier=parked cap=1 timeout=400
    #[kani::proof]
    #[kani::unwind(4)]
    fn c06_pending_after_static_switch() { pending_case(1); kani::cover!(true); }
    // @h name=c06_unknown_event_dropped tier=quick cap=1 timeout=400
    #[kani::proof]
    #[kani::unwind(4)]
    fn c06_unknown_event_dropped() {
        let mut d = data_with_known_file();
        d.handle_events(super::super::Events::Single(file("q")));
        assert!(d.to_reload.is_empty(), "an event for an entry nobody recorded was kept for reloading");
        d.handle_events(super::super::Events::Single(OwnedDirEntry::Directory(SharedString::from("f"))));
        assert!(d.to_reload.is_empty(), "a directory event was matched with a file of the same id");
        kani::cover!(true);
        std::mem::forget(d);
    }
}
