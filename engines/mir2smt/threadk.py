"""E2, sequential kernel: the message loop of the reloader thread, `hot_reloading_thread` (src/hot_reloading/mod.rs),
from the MIR of /repo's tree.

The channels are the environment: the function is run against EVERY script of at most K channel interactions
(`Select::ready`, `cache_msg.try_recv`, `events.try_recv`), where each interaction has a symbolic outcome
  ready      -> index 0 (cache message channel) or 1 (event channel)        [contract of Select: an index it registered]
  cache_msg  -> Ptr(map, reloader, token) | Static(map, reloader) | Clear | AddAsset(infos) | Empty | Disconnected
  events     -> Ok(events) | Empty | Disconnected
and the tokens are symbolic 64-bit values; the reloader's mode (Local / Static) is symbolic as well.  What the loop calls (`HotReloadingData::*`, `Answers::notify`) is recorded,
not executed (their own kernels: `modek.py`, `run_update`; `Answers`: the Kani monitor harnesses).  A script that needs a
(K+1)-th interaction is cut there (its prefix is still checked).
Property per control path:
  P0  the cache-message receiver is registered with the Select before the event receiver (so that "ready == 1" means events)
  P1  a Ptr request is followed, before the thread touches a channel again, by exactly: update_if_local(its map, its
      reloader), then Answers::notify(ITS token): every hot_reload caller is released by the answer to its own request,
      in every mode of the reloader (C08)
  P2  Static -> exactly use_static_ref(its map, its reloader); Clear -> clear_local_cache; AddAsset -> add_asset(its infos);
      an event batch -> exactly handle_events(that batch)
  P3  Disconnected on either channel -> the thread returns without touching a channel again; it returns in no other case (C15)
  P4  the thread blocks in `ready` first and after every drained round: after cache_msg reported Empty it polls the event
      channel or blocks again, it never polls cache_msg again without blocking (no spinning, C15), and when `ready`
      said the event channel is ready that channel is polled in that round (no event is left behind to wake it for ever)
  P5  the cache channel is polled again before every further poll of the event channel: a sustained stream of events cannot
      keep the thread from noticing that its cache is gone (C15) or from answering a waiting hot_reload caller (C08)
"""
import copy
import re
import time

import mir2smt as M
from mir2smt import BV, Ref, Struct, Konst, Event, Unsupported, bv
from seqfold import SymEnum, conj
from reloadk import Obj
from modek import ModeExec, IMPL

TRY_RECV_ERR = ["Empty", "Disconnected"]      # crossbeam_channel::TryRecvError, declaration order (checked against the registry source in thread_queries)


def enum_order(src, name):
    m = re.search(r"enum " + name + r"\s*\{(.*?)\n\}", src, flags=re.S)
    if not m:
        raise Unsupported("enum " + name + " not found in the source")
    body = re.sub(r"//[^\n]*", "", m.group(1))
    out, depth, cur = [], 0, ""
    for ch in body:
        if ch in "({":
            depth += 1
        elif ch in ")}":
            depth -= 1
        elif ch == "," and depth == 0:
            out.append(cur)
            cur = ""
            continue
        if depth == 0 or ch in "({":
            cur += ch if depth == 0 else ""
    out.append(cur)
    names = [re.sub(r"#\[[^\]]*\]", "", x).strip() for x in out]
    return [re.match(r"\w+", x).group(0) for x in names if re.match(r"\w+", x)]


class ThreadExec(ModeExec):
    def __init__(self, fns, K, msg_order):
        super().__init__(fns, 12)
        self.K, self.msg_order = K, msg_order
        self.cut = []

    def rvalue(self, rv, frame, mem):
        rv = rv.strip()
        m = re.fullmatch(r"Option::<[^()]*>::Some\((.*)\)", rv)
        if m:
            return Struct({0: self.operand(m.group(1), frame, mem)}, tag="Some")
        if re.fullmatch(r"Option::<[^()]*>::None", rv):
            return Struct({}, tag="None")
        return super().rvalue(rv, frame, mem)

    def operand(self, s, frame, mem):
        if re.fullmatch(r"const Option::<[^()]*>::None", re.sub(r"^no_retag ", "", s.strip())):
            return Struct({}, tag="None")
        return super().operand(s, frame, mem)

    def resolve(self, callee):
        # a method of HotReloadingData the kernel does not know as an action (e.g. a new predicate on the mode) is executed
        m = re.fullmatch(r"HotReloadingData::(\w+)", callee.strip())
        if m and ("m:" + m.group(1)) in self.fns:
            return "m:" + m.group(1)
        return None

    def env_call(self, path):
        k = sum(1 for e in path.events if e.kind in ("ready", "cmsg", "emsg"))
        if k >= self.K:
            self.cut.append(path)
            return None
        return k

    def call(self, callee, args, mem, path, depth):
        c = re.sub(r"\s+", " ", callee.strip())
        ev = path.events
        if c == "HotReloadingData::new":
            ev.append(Event("new"))
            yield mem, path, Struct({0: Obj("source"), 1: Obj("changed"),
                                     2: SymEnum("CacheKind", "mode", {"Static": {0: Obj("static_map"), 1: Obj("static_reloader")}}),
                                     3: Obj("DEPS")}, tag="HotReloadingData")
            return
        if c == "crossbeam_channel::Select::<'_>::new":
            yield mem, path, Obj("select")
            return
        m = re.fullmatch(r"crossbeam_channel::Select::<'_>::recv::<(\w+)>", c)
        if m:
            r = self.val(args[1], mem)
            ev.append(Event("register", getattr(r, "name", "?")))
            yield mem, path, bv(sum(1 for e in ev if e.kind == "register") - 1)
            return
        if c == "crossbeam_channel::Select::<'_>::ready":
            j = self.env_call(path)
            if j is None:
                return
            for r in (0, 1):
                m2, p2 = copy.deepcopy(mem), copy.deepcopy(path)
                p2.conds.append(f"(= x{j} (_ bv0 64))" if r == 0 else f"(bvuge x{j} (_ bv1 64))")
                p2.events.append(Event("ready", r))
                yield m2, p2, bv(r)
            return
        m = re.fullmatch(r"crossbeam_channel::Receiver::<(CacheMessage|Events)>::try_recv", c)
        if m:
            rcv = self.val(args[0], mem)
            want = "cache_msg" if m.group(1) == "CacheMessage" else "events"
            if getattr(rcv, "name", None) != want:
                raise Unsupported("try_recv on an unexpected receiver")
            j = self.env_call(path)
            if j is None:
                return
            if want == "cache_msg":
                outcomes = self.msg_order + TRY_RECV_ERR
            else:
                outcomes = ["Ok"] + TRY_RECV_ERR
            for i, o in enumerate(outcomes):
                m2, p2 = copy.deepcopy(mem), copy.deepcopy(path)
                p2.conds.append(f"(= x{j} (_ bv{i} 64))" if i < len(outcomes) - 1 else f"(bvuge x{j} (_ bv{i} 64))")
                p2.events.append(Event("cmsg" if want == "cache_msg" else "emsg", o, arg=str(j)))
                if o in TRY_RECV_ERR:
                    res = SymEnum("Result", bv(1).t, {"Err": {0: SymEnum("TryRecvError", bv(TRY_RECV_ERR.index(o)).t, {})}})
                elif want == "events":
                    res = SymEnum("Result", bv(0).t, {"Ok": {0: Obj(f"ev{j}")}})
                else:
                    pay = {"Ptr": {0: Obj(f"map{j}"), 1: Obj(f"rel{j}"), 2: BV(f"tok{j}")},
                           "Static": {0: Obj(f"map{j}"), 1: Obj(f"rel{j}")}, "AddAsset": {0: Obj(f"infos{j}")}}
                    msg = SymEnum("CacheMessage", bv(self.msg_order.index(o)).t, {o: pay.get(o, {})})
                    res = SymEnum("Result", bv(0).t, {"Ok": {0: msg}})
                yield m2, p2, res
            return
        m = re.fullmatch(r"NonNull::<.*>::as_ref::<'_>", c)
        if m:
            yield mem, path, self.val(args[0], mem)
            return
        if c == "<Arc<Answers> as Deref>::deref":
            yield mem, path, Obj("answers")
            return
        m = re.fullmatch(r"HotReloadingData::(update_if_local|use_static_ref|add_asset|clear_local_cache|handle_events)", c)
        if m:
            names = tuple(getattr(self.val(a, mem), "name", "?") for a in args[1:])
            ev.append(Event("do", m.group(1), arg=names))
            yield mem, path, Konst("unit")
            return
        if c == "Answers::notify":
            t = self.val(args[1], mem)
            if not isinstance(t, BV):
                raise Unsupported("token handed to Answers::notify is not an integer")
            ev.append(Event("notify", t.t))
            yield mem, path, Konst("unit")
            return
        yield from super().call(callee, args, mem, path, depth)


def check_path(events, finished):
    """-> SMT term: the property over one event sequence (structure decided here, token equalities left to the solver)"""
    ev = [e for e in events if e.kind in ("new", "register", "ready", "cmsg", "emsg", "do", "notify", "return")]
    regs = [e.obj for e in ev if e.kind == "register"]
    if regs != ["cache_msg", "events"]:
        return "false", "P0"
    body = [e for e in ev if e.kind not in ("new", "register")]
    terms = []
    i, n = 0, len(body)
    blocked = False            # a `ready` happened and no cache_msg poll answered Empty since
    pending_events = False     # `ready` said the event channel is ready, not polled yet in this round
    drained = True             # must block before polling cache_msg (start, or cache_msg answered Empty)
    cm_since_em = True         # the cache channel was polled since the last poll of the event channel
    while i < n:
        e = body[i]
        nxt = []
        k = i + 1
        while k < n and body[k].kind in ("do", "notify"):
            nxt.append(body[k])
            k += 1
        if e.kind == "ready":
            if pending_events:
                return "false", "P4-event-left-behind"
            blocked, drained, pending_events = True, False, e.obj == 1
            want = []
        elif e.kind == "cmsg":
            if drained:
                return "false", "P4-spin"
            cm_since_em = True
            j = e.arg
            if e.obj == "Ptr":
                if len(nxt) != 2:
                    return "false", "P1"
                a, b = nxt
                if not (a.kind == "do" and a.obj == "update_if_local" and a.arg == (f"map{j}", f"rel{j}") and b.kind == "notify"):
                    return "false", "P1"
                terms.append(f"(= {b.obj} tok{j})")
                want = None
            elif e.obj == "Static":
                want = [("use_static_ref", (f"map{j}", f"rel{j}"))]
            elif e.obj == "Clear":
                want = [("clear_local_cache", ())]
            elif e.obj == "AddAsset":
                want = [("add_asset", (f"infos{j}",))]
            elif e.obj == "Empty":
                drained, want = True, []
            else:
                want = "return"
        elif e.kind == "emsg":
            if not drained:
                return "false", "P4-events-before-cache-messages"
            if not cm_since_em:
                return "false", "P5-cache-channel-not-rechecked"
            pending_events, cm_since_em = False, False
            j = e.arg
            want = [("handle_events", (f"ev{j}",))] if e.obj == "Ok" else [] if e.obj == "Empty" else "return"
        elif e.kind == "return":
            return "false", "P3-return"
        else:
            return "false", "stray"
        if want == "return":
            rest = body[i + 1:]
            if nxt or not (len(rest) == 1 and rest[0].kind == "return") and finished:
                return "false", "P3"
            if not finished and rest:
                return "false", "P3"
            return ("(and " + " ".join(terms) + ")" if terms else "true"), "stopped"
        if want is not None and [(x.kind == "do" and x.obj, x.arg) for x in nxt] != [(a, b) for a, b in want]:
            return "false", "P2"
        i = k
    if finished:
        return "false", "P3-return-without-disconnect"
    return ("(and " + " ".join(terms) + ")" if terms else "true"), "cut"


def thread_queries(repo, fns_list, K, log, native, result):
    import os
    main = [f for f in fns_list if f.name == "hot_reloading_thread"]
    if len(main) != 1:
        raise Unsupported("hot_reloading_thread not found (or ambiguous) in the MIR dump")
    src = open(os.path.join(repo, "src/hot_reloading/mod.rs")).read()
    order = enum_order(src, "CacheMessage")
    if sorted(order) != sorted(["Ptr", "Static", "Clear", "AddAsset"]):
        raise Unsupported("CacheMessage has other variants than the kernel knows: " + ",".join(order))
    # declaration order of crossbeam_channel::TryRecvError: read from the registry copy of the locked version when it is there
    import glob
    lock = open(os.path.join(repo, "Cargo.lock")).read()
    mv = re.search(r'name = "crossbeam-channel"\nversion = "([^"]+)"', lock)
    errsrc = glob.glob(os.path.expanduser(f"~/.cargo/registry/src/*/crossbeam-channel-{mv.group(1)}/src/err.rs")) if mv else []
    if errsrc:
        got = enum_order(re.sub(r"///[^\n]*", "", open(errsrc[0]).read()), "TryRecvError")
        if got != TRY_RECV_ERR:
            raise Unsupported("crossbeam_channel::TryRecvError is declared as " + ",".join(got))
        err_note = f"TryRecvError order read from crossbeam-channel {mv.group(1)}"
    else:
        err_note = "TryRecvError order (Empty, Disconnected) assumed: registry source not found"
    t0 = time.time()
    fns = {"hot_reloading_thread": main[0]}
    known = ("update_if_local", "use_static_ref", "add_asset", "clear_local_cache", "handle_events", "new")
    for f in fns_list:
        m = re.fullmatch(IMPL + r"(\w+)", f.name)
        if m and m.group(1) not in known:
            fns["m:" + m.group(1)] = f
    ex = ThreadExec(fns, K, order)
    mem0 = {("G", "src"): Obj("source"), ("G", "ev"): Obj("events"), ("G", "cm"): Obj("cache_msg"), ("G", "ans"): Obj("answers")}
    done = []
    for (_, p, _) in ex.run("hot_reloading_thread", [Obj("source"), Obj("events"), Obj("cache_msg"), Obj("answers")], mem0):
        p.events.append(Event("return"))
        done.append(p)
    runs = [(p, True) for p in done] + [(p, False) for p in ex.cut]
    props = [check_path(p.events, fin) for p, fin in runs]
    pre = ["(set-logic ALL)", "(declare-const mode (_ BitVec 64))", "(assert (or (= mode (_ bv0 64)) (= mode (_ bv1 64))))"]
    for j in range(K):
        pre += [f"(declare-const x{j} (_ BitVec 64))", f"(declare-const tok{j} (_ BitVec 64))"]
    bounds = (f"hot_reloading_thread from MIR against every script of <= {K} channel interactions (ready 0/1; cache_msg "
              f"{'/'.join(order)}/Empty/Disconnected; events Ok/Empty/Disconnected), symbolic tokens; {len(done)} terminated and "
              f"{len(ex.cut)} cut control paths, symbolic execution {time.time() - t0:.2f}s; {err_note}")
    res = []
    bad = ["(and " + conj(p.conds) + " (not " + pr[0] + "))" for (p, _), pr in zip(runs, props)]
    v, model, dt, raw = M.solve(pre + ["(assert (or " + " ".join(bad or ["false"]) + "))"], want_model_vars=["mode"] + [f"x{j}" for j in range(K)])
    r = result(f"thread-K{K}:violation", v, "unsat", dt, bounds, {"paths": len(runs), "functions": sorted(ex.encoded)})
    if v == "sat":
        clause, script = "?", []
        for (p, fin), pr in zip(runs, props):
            if pr[0] == "true":
                continue
            v1, _, _, _ = M.solve(pre + ["(assert (and " + conj(p.conds) + " (not " + pr[0] + ")))"])
            if v1 == "sat":
                clause = pr[1]
                script = [f"{e.kind}:{e.obj}" for e in p.events if e.kind in ("ready", "cmsg", "emsg", "do", "notify", "return")]
                break
        r["counterexample"] = {"script": script, "clause": clause, "reloader_mode": "Static" if model.get("mode", "").endswith("1") else "Local"}
        r["why"] = f"channel script {' '.join(script)}: clause {clause} of the reloader loop's contract fails"
        try:
            rc, out = native("thread_loop", [])
        except Exception as e:  # noqa
            rc, out = 1, repr(e)
        crashed = rc >= 128 or rc < 0        # the real build died on a signal (e.g. the lent cache used after its caller was released)
        rep = "THREAD-LOOP-REPRODUCED" in out or crashed
        r["native_replay"] = {"bin": "thread_loop", "reproduced": rep, "exit": rc, "tail": out[-300:]}
        log(f"[E2] native replay thread_loop: {'reproduced' if rep else 'NOT reproduced'}")
        if not rep:
            r["outcome"] = "inconclusive"
            r["why"] = "solver counterexample did not reproduce on the real build: " + r["why"]
    res.append(r)
    log(f"[E2] thread-K{K}:violation: {v} ({dt:.2f}s, {len(runs)} paths)")
    # every script is covered by some path (the last outcome of each interaction stands for every larger x_j)
    v, _, dt, _ = M.solve(pre + ["(assert (not (or " + " ".join(conj(p.conds) for (p, _) in runs) + ")))"])
    res.append(result(f"thread-K{K}:complete", v, "unsat", dt, bounds))
    for name, pred in (("reach_answered_request", lambda p: any(e.kind == "notify" for e in p.events)),
                       ("reach_stop_on_cache_drop", lambda p: any(e.kind == "cmsg" and e.obj == "Disconnected" for e in p.events)),
                       ("reach_events_handled", lambda p: any(e.kind == "do" and e.obj == "handle_events" for e in p.events))):
        cs = [conj(p.conds) for (p, _), pr in zip(runs, props) if pr[0] != "false" and pred(p)]
        v, _, dt, _ = M.solve(pre + ["(assert (or " + " ".join(cs or ["false"]) + "))"])
        res.append(result(f"thread-K{K}:{name}", v, "sat", dt, bounds))
    return res


if __name__ == "__main__":
    import sys
    fl = M.parse_mir(open(sys.argv[1]).read())
    def _res(q, v, e, dt, b, extra=None, raw=None):
        return {"query": q, "verdict": v, "expect": e, "outcome": "pass" if v == e else "FAIL", "bounds": b}
    for r in thread_queries(sys.argv[2], fl, int(sys.argv[3]) if len(sys.argv) > 3 else 4, print, lambda b, a: (0, ""), _res):
        print({k: r[k] for k in r if k != "bounds"}, r["bounds"][-90:])
