"""E2, sequential kernel: shard selection of the concurrent map (src/cache.rs), from the MIR of /repo's tree.

`AssetMap::new` (shard count from the CPU count), `get_shard` (used by get / insert / contains through `&self`)
and `get_shard_mut` (used by take / remove through `&mut self`) are executed symbolically.  Symbolic inputs:
p = `available_parallelism()` (1 <= p <= 2^20, or the call fails) and h = the 64-bit hash of the key.
Environment contracts (stated, not encoded): `usize::next_power_of_two` = smallest power of two >= x;
`(0..n).map(f).collect::<Box<[_]>>()` has n elements; both functions feed the same key to a hasher built from
the map's `hash_builder`, so they see the same h (checked structurally on the MIR: build_hasher, hash, finish);
logging is off (the `log::error!` arm is not entered).
Queries (z3 and cvc5 must agree):
  shards:violation   some (p, h): a panic obligation of the three functions fails (overflow, index out of
                     bounds, remainder by zero), or the two paths pick different shards            expected unsat
  shards:reach       the three functions run to completion for some input                           expected sat
A counterexample is replayed on the real build under a CPU affinity mask of p CPUs (replay/native shard_route).
"""
import os
import re
import time

import mir2smt as M
from mir2smt import BV, BoolV, Ref, Struct, Konst, Event, Unsupported, bv
from seqfold import FoldExec, conj

PMAX = 1 << 20


class HasherV:
    def __init__(self): self.fed = []
class SliceObj:
    def __init__(self, length): self.length = length
class ShardRef:
    def __init__(self, idx): self.idx = idx


def npot(x):
    t = "(_ bv0 64)"   # x > 2^63: wraps to 0 in release builds (outside the assumed range of p)
    for k in reversed(range(64)):
        t = f"(ite (bvule {x} (_ bv{1 << k} 64)) (_ bv{1 << k} 64) {t})"
    return t


class ShardExec(FoldExec):
    def __init__(self, fns):
        super().__init__(fns, 0, [], {})
        self.nslices = 0

    def load(self, ref, mem):
        return super().load(ref, mem)

    def rvalue(self, rv, frame, mem):
        rv = rv.strip()
        m = re.fullmatch(r"(Add|Sub|Mul)WithOverflow\((.+)\)", rv)
        if m:
            a, b = [self.operand(x, frame, mem) for x in M.split_top(m.group(2), ",")]
            op = m.group(1)
            if op == "Sub":
                return Struct({0: BV(f"(bvsub {a.t} {b.t})"), 1: BoolV(f"(bvult {a.t} {b.t})")}, tag="tuple")
            if op == "Add":
                return Struct({0: BV(f"(bvadd {a.t} {b.t})"), 1: BoolV(f"(bvult (bvadd {a.t} {b.t}) {a.t})")}, tag="tuple")
            wide = f"(bvmul ((_ zero_extend 64) {a.t}) ((_ zero_extend 64) {b.t}))"
            return Struct({0: BV(f"(bvmul {a.t} {b.t})"), 1: BoolV(f"(distinct ((_ extract 127 64) {wide}) (_ bv0 64))")}, tag="tuple")
        m = re.fullmatch(r"(BitAnd|BitOr|BitXor|Rem|Div|Add|Sub|Mul|Shl|Shr)(?:Unchecked)?\((.+)\)", rv)
        if m:
            a, b = [self.operand(x, frame, mem) for x in M.split_top(m.group(2), ",")]
            op = {"BitAnd": "bvand", "BitOr": "bvor", "BitXor": "bvxor", "Rem": "bvurem", "Div": "bvudiv", "Add": "bvadd", "Sub": "bvsub",
                  "Mul": "bvmul", "Shl": "bvshl", "Shr": "bvlshr"}[m.group(1)]
            return BV(f"({op} {a.t} {b.t})")
        m = re.fullmatch(r"Not\((.+)\)", rv)
        if m:
            a = self.operand(m.group(1), frame, mem)
            return BoolV(f"(not {a.t})") if isinstance(a, BoolV) else BV(f"(bvnot {a.t})")
        m = re.fullmatch(r"PtrMetadata\((.+)\)", rv)
        if m:
            r = self.operand(m.group(1), frame, mem)
            obj = self.load(r, mem) if isinstance(r, Ref) else None
            if not isinstance(obj, SliceObj):
                raise Unsupported("PtrMetadata of something that is not the shard slice")
            return BV(obj.length)
        m = re.fullmatch(r"&(?:mut )?\(\*_(\d+)\)\[_(\d+)\]", rv)
        if m:
            base = self.load(Ref((frame, int(m.group(1)))), mem)
            idx = self.load(Ref((frame, int(m.group(2)))), mem)
            if not (isinstance(base, Ref) and isinstance(self.load(base, mem), SliceObj)):
                raise Unsupported("indexing something that is not the shard slice")
            return ShardRef(idx.t)
        m = re.fullmatch(r"std::ops::Range::<usize> \{ start: (.+), end: (.+) \}", rv)
        if m:
            return Struct({0: self.operand(m.group(1), frame, mem), 1: self.operand(m.group(2), frame, mem)}, tag="Range")
        m = re.fullmatch(r"log::Level::(\w+)", rv)
        if m:
            return Konst("log::Level::" + m.group(1))
        return super().rvalue(rv, frame, mem)

    def call(self, callee, args, mem, path, depth):
        c = re.sub(r"\s+", " ", callee.strip())
        if c == "available_parallelism":
            import copy
            m2, p2 = copy.deepcopy(mem), copy.deepcopy(path)
            p2.conds.append("par_ok")
            yield m2, p2, Struct({0: Struct({0: BV("p")}, tag="NonZero")}, tag="Ok")
            path.conds.append("(not par_ok)")
            yield mem, path, Struct({0: Konst("io::Error")}, tag="Err")
            return
        if c == "NonZero::<usize>::get":
            yield mem, path, args[0].fields[0]
            return
        if c == "core::num::<impl usize>::next_power_of_two":
            yield mem, path, BV(npot(args[0].t))
            return
        if c == "<Level as PartialOrd<LevelFilter>>::le":
            yield mem, path, BoolV("false")     # logging is off
            return
        if c == "ahash::RandomState::new":
            yield mem, path, Konst("hash_builder")
            return
        if re.fullmatch(r"<std::ops::Range<usize> as Iterator>::map::<Shard, \{closure@src/cache\.rs:[\d: ]+\}>", c):
            yield mem, path, args[0]
            return
        if re.fullmatch(r"<Map<std::ops::Range<usize>, \{closure@src/cache\.rs:[\d: ]+\}> as Iterator>::collect::<Box<\[Shard\]>>", c):
            r = args[0]
            if not (isinstance(r, Struct) and r.tag == "Range"):
                raise Unsupported("collect over something that is not a Range")
            self.nslices += 1
            base = ("slice", self.nslices)
            path.events.append(Event("assert", f"(bvule {r.fields[0].t} {r.fields[1].t})", arg="range start <= end"))
            mem[base] = SliceObj(f"(bvsub {r.fields[1].t} {r.fields[0].t})")
            yield mem, path, Struct({0: Struct({0: Ref(base)}, tag="Unique")}, tag="Box")
            return
        if c == "<ahash::RandomState as std::hash::BuildHasher>::build_hasher":
            hb = self.load(self.load_ref(args[0]), mem)
            if not (isinstance(hb, Konst) and hb.k == "hash_builder"):
                raise Unsupported("hasher not built from the map's hash_builder")
            yield mem, path, HasherV()
            return
        if re.fullmatch(r"<private::BorrowedKey<'_> as std::hash::Hash>::hash::<AHasher>", c):
            k = self.load(self.load_ref(args[0]), mem)
            hs = self.load(self.load_ref(args[1]), mem)
            if not isinstance(hs, HasherV) or not (isinstance(k, Konst) and k.k == "key"):
                raise Unsupported("hash of something else than the key")
            hs.fed.append("key")
            yield mem, path, Konst("unit")
            return
        if c == "<AHasher as std::hash::Hasher>::finish":
            hs = self.load(self.load_ref(args[0]), mem)
            if not isinstance(hs, HasherV) or hs.fed != ["key"]:
                raise Unsupported("finish() of a hasher that was not fed exactly the key")
            yield mem, path, BV("h")
            return
        yield from super().call(callee, args, mem, path, depth)

    def resolve(self, callee):
        return None


def solve2(lines, want=()):
    """z3 4.8.12 and cvc5 must agree. cvc5 does not get through 64-bit bvurem/bvudiv (appears only if the code starts
    to use % or /): when cvc5 gives no answer and z3 answers, z3 5.1.0 (z3-new) is asked as the second opinion."""
    import subprocess
    v, model, dt, raw = M.solve(lines, want_model_vars=want)
    note = None
    if v in ("error", "unknown") and raw.get("z3", ("",))[0] in ("sat", "unsat") and raw.get("cvc5", ("",))[0] not in ("sat", "unsat") \
            and "(error" not in raw.get("z3", ("", ""))[1]:
        text = "\n".join(lines) + "\n(check-sat)\n" + ("(get-value (" + " ".join(want) + "))\n" if want else "")
        t0 = time.time()
        try:
            p = subprocess.run(["z3-new", "-in", "-T:%d" % M.TLIMIT], input=text, capture_output=True, text=True, timeout=M.TLIMIT + 30)
            first = p.stdout.strip().split("\n")[0].strip() if p.stdout.strip() else "error"
        except Exception:  # noqa
            first, p = "error", None
        dt += time.time() - t0
        if first == raw["z3"][0] and p is not None and ("(error" not in p.stdout or first == "unsat"):
            v = first
            note = "cvc5 gave no answer within the limit; second opinion from z3 5.1.0"
            model = {}
            if v == "sat":
                for m in re.finditer(r"\(([^\s()]+) (#x[0-9a-fA-F]+|true|false)\)", p.stdout):
                    model[m.group(1)] = m.group(2)
    return v, model, dt, raw, note


def find(fns_list, method, nparams):
    c = [f for f in fns_list if re.fullmatch(r"cache::<impl at src/cache\.rs:[\d: ]+>::" + method, f.name) and len(f.params) == nparams
         and (nparams == 0 or "AssetMap" in f.params[0])]
    if len(c) != 1:
        raise Unsupported(f"AssetMap::{method} not found (or ambiguous) in the MIR dump")
    return c[0]


def shard_queries(fns_list, log, native, result):
    fns = {"new": find(fns_list, "new", 0), "get_shard": find(fns_list, "get_shard", 2), "get_shard_mut": find(fns_list, "get_shard_mut", 2)}
    t0 = time.time()
    ex = ShardExec(fns)
    combos = []
    for mem, path, amap in ex.run("new", []):
        mem[("G", "map")] = amap
        for m1, p1, r1 in ex.run("get_shard", [Ref(("G", "map")), Konst("key")], mem, path):
            for m2, p2, r2 in ex.run("get_shard_mut", [Ref(("G", "map")), Konst("key")], m1, p1):
                if not (isinstance(r1, ShardRef) and isinstance(r2, ShardRef)):
                    raise Unsupported("get_shard does not return an element of the shard slice")
                combos.append((p2, r1, r2))
    pre = ["(set-logic ALL)", "(declare-const p (_ BitVec 64))", "(declare-const h (_ BitVec 64))", "(declare-const par_ok Bool)",
           f"(assert (and (bvuge p (_ bv1 64)) (bvule p (_ bv{PMAX} 64))))"]
    bounds = (f"AssetMap::new + get_shard + get_shard_mut from MIR; available_parallelism = any p in 1..=2^20 or an error, any 64-bit hash; "
              f"{len(combos)} control paths, symbolic execution {time.time() - t0:.2f}s")
    bad = []
    for (p, r1, r2) in combos:
        obl = [e.obj for e in p.events if e.kind == "assert"]
        bad.append(f"(and {conj(p.conds)} (not {conj(obl + [f'(= {r1.idx} {r2.idx})'])}))")
    res = []
    ncpu = os.cpu_count() or 1
    v, model, dt, raw, note = solve2(pre + ["(assert (or " + " ".join(bad) + "))"], ["p", "h", "par_ok"])
    r = result("C02-shards:violation", v, "unsat", dt, bounds, {"paths": len(combos), "functions": sorted(ex.encoded)})
    if note:
        r["solver_note"] = note
    if v == "sat":
        # prefer a counterexample that this machine can replay (p CPUs through an affinity mask)
        v2, model2, _, _, _ = solve2(pre + ["(assert par_ok)", f"(assert (bvule p (_ bv{ncpu} 64)))", "(assert (or " + " ".join(bad) + "))"], ["p", "h", "par_ok"])
        if v2 == "sat":
            model = model2
        pv = int(model.get("p", "#x0")[2:], 16) if model.get("p", "").startswith("#x") else 0
        r["counterexample"] = {"p": pv, "h": model.get("h"), "available_parallelism_ok": model.get("par_ok")}
        r["why"] = f"with {pv} CPUs and key hash {model.get('h')} the &self and &mut self paths of the map pick different shards (or shard selection panics)"
        rep, out = False, "not replayable on this machine"
        if v2 == "sat":
            try:
                rc, out = native("shard_route", [pv])
            except Exception as e:  # noqa
                rc, out = -1, repr(e)
            rep = "SHARD-ROUTE-REPRODUCED" in out
        r["native_replay"] = {"bin": "shard_route", "cpus": pv, "reproduced": rep, "tail": out[-300:]}
        log(f"[E2] native replay shard_route {pv}: {'reproduced' if rep else 'NOT reproduced'}")
        if not rep:
            r["outcome"] = "inconclusive"
            r["why"] = "solver counterexample did not reproduce on the real build: " + r["why"]
    res.append(r)
    log(f"[E2] C02-shards:violation: {v} ({dt:.2f}s, {len(combos)} paths)")
    v, _, dt, _ = M.solve(pre + ["(assert (or " + " ".join(conj(p.conds) for (p, _, _) in combos) + "))", "(assert par_ok)"])
    res.append(result("C02-shards:reach", v, "sat", dt, bounds))
    v, _, dt, _ = M.solve(pre + ["(assert (not (or " + " ".join(conj(p.conds) for (p, _, _) in combos) + ")))"])
    res.append(result("C02-shards:complete", v, "unsat", dt, bounds))
    return res
