"""E2, sequential kernels: the extension loop of `load_from_source` (src/asset.rs) with `ErrorKind::or`
(src/error.rs) inlined, executed symbolically from the MIR of /repo's working tree.

What is symbolic: the number n of declared extensions (n <= N, the stated bound) and, per extension j, the
outcome of the `load_with_ext` closure: r_j (0 = Ok, 1 = Err), d_j (the ErrorKind variant of an Err: Io or
Conversion) and k_j (the io::ErrorKind of an Io error, an unconstrained 64-bit value; NotFound is one value).
The closure body itself (`source.read(..)?.with_cow(..)?`) is NOT encoded: it is the environment, with the
contract "returns Ok(asset) or Err(Io(e)) or Err(Conversion(b))" (its two `?` conversions are the `From` impls
of src/error.rs; byte-exactness of `with_cow` is decided by the E1 harnesses c03_content_*).
`T::default_value(id, error.into())` is the terminal: the claim is about the error handed to it.

Queries (z3 and cvc5 must agree):
  fold:violation      OR over all control paths (path condition AND NOT property-on-that-path)   expected unsat
  fold:complete       the path conditions cover every input within the bound                       expected unsat
  fold:reach_default  a path that tries all N extensions and reaches default_value is feasible     expected sat
  fold:reach_last_ok  a path whose last (N-th) extension succeeds is feasible                      expected sat
A sat answer of fold:violation is turned into an outcome vector and replayed on the real build
(replay/native c03_fold) before it is reported.
"""
import copy
import os
import re
import time

import mir2smt as M
from mir2smt import BV, BoolV, Ref, Struct, Konst, Exec, Event, Path, Unsupported, split_top, bv


class SymEnum:
    def __init__(self, ty, disc, payloads, origin=None):
        self.ty, self.disc, self.payloads, self.origin = ty, disc, payloads, origin
class IoErr:
    def __init__(self, j): self.j = j
class ConvErr:
    def __init__(self, j): self.j = j
class AssetV:
    def __init__(self, j): self.j = j
class Boxed:
    def __init__(self, inner): self.inner = inner
class IterV:
    def __init__(self, pos): self.pos = pos
class ExtItem:
    def __init__(self, i): self.i = i
class DefaultCall:
    def __init__(self, err): self.err = err


NOTFOUND = 0


def kind_number(name, table):
    name = name.split("::")[-1]
    if name == "NotFound":
        return NOTFOUND
    if name not in table:
        table[name] = len(table) + 1
    return table[name]


class FoldExec(Exec):
    def __init__(self, fns, N, variants, promoted):
        super().__init__(fns, 0, {})
        self.N, self.variants, self.promoted = N, variants, promoted
        self.domain = {}
        self.kinds = {}
        for i in range(N):
            self.shared[("ext", i)] = ExtItem(i)

    def vidx(self, name):
        if name not in self.variants:
            raise Unsupported("ErrorKind has no variant " + name)
        return self.variants.index(name)

    # ---- control ------------------------------------------------------------------------------
    def eq_const(self, v, n):
        if isinstance(v, BV) and not re.match(r"\(_ bv\d+ 64\)", v.t):
            dom = self.domain.get(v.t)
            if dom is not None and n not in dom:
                return "false"
            for c in self.cur_path.conds:
                m = re.fullmatch(r"\(= " + re.escape(v.t) + r" \(_ bv(\d+) 64\)\)", c)
                if m:
                    return "true" if int(m.group(1)) == n else "false"
        if isinstance(v, BoolV):
            m = re.fullmatch(r"\(= (\w+) \(_ bv1 64\)\)", v.t)
            if m and m.group(1) in self.domain:
                sym, want = m.group(1), (1 if n != 0 else 0)
                for c in self.cur_path.conds:
                    if c == v.t:
                        return "true" if want == 1 else "false"
                    if c == f"(not {v.t})":
                        return "true" if want == 0 else "false"
        return super().eq_const(v, n)

    def block(self, f, frame, bb, mem, path, depth, steps):
        if steps > 40 * (self.N + 2):
            raise Unsupported("block budget in " + f.name)
        lines = f.blocks.get(bb)
        if lines is None:
            raise Unsupported("missing block " + bb)
        for idx, line in enumerate(lines):
            last = idx == len(lines) - 1
            self.cur_path = path
            self.cur_fn = f
            if not last:
                self.stmt(line, frame, mem)
                continue
            if line == "return;":
                yield mem, path, mem.get((frame, 0), Konst("unit"))
                return
            if line == "unreachable;":
                return
            m = re.match(r"goto -> (bb\d+);", line)
            if m:
                yield from self.block(f, frame, m.group(1), mem, path, depth, steps + 1)
                return
            m = re.match(r"switchInt\((.*?)\) -> \[(.*)\];", line)
            if m:
                v = self.operand(m.group(1), frame, mem)
                targets = [t.strip().split(": ") for t in m.group(2).split(",")]
                taken = []
                for val, tgt in targets:
                    if val == "otherwise":
                        cond = "(and " + " ".join(f"(not {c})" for c in taken) + ")" if taken else "true"
                    else:
                        self.cur_path = path
                        cond = self.eq_const(v, int(val))
                        if cond == "false":
                            continue
                        taken.append(cond)
                    m2, p2 = copy.deepcopy(mem), copy.deepcopy(path)
                    if cond != "true":
                        p2.conds.append(cond)
                    yield from self.block(f, frame, tgt, m2, p2, depth, steps + 1)
                    if cond == "true":
                        break
                return
            m = re.match(r"assert\((!?)(?:move |copy )(.+?), \"(.*?)\".*\) -> \[success: (bb\d+), unwind[^\]]*\];", line)
            if m:
                v = self.load(self.place(m.group(2), frame, mem), mem)
                if not isinstance(v, BoolV):
                    raise Unsupported("assert on a non-boolean")
                path.events.append(Event("assert", f"(not {v.t})" if m.group(1) else v.t, arg=m.group(3)))
                yield from self.block(f, frame, m.group(4), mem, path, depth, steps + 1)
                return
            m = re.match(r"drop\((.*)\) -> \[return: (bb\d+), unwind[^\]]*\];", line)
            if m:
                path.events.append(Event("drop", m.group(1)))
                yield from self.block(f, frame, m.group(2), mem, path, depth, steps + 1)
                return
            m = re.match(r"(?:(_\d+) = )?(.*) -> \[return: (bb\d+), unwind[^\]]*\];", line)
            if m and m.group(2).endswith(")"):
                dest, callexpr, nxt = m.groups()
                # split "callee(args)" at the parenthesis that matches the final one
                d, i = 0, len(callexpr) - 1
                while i >= 0:
                    ch = callexpr[i]
                    if ch == ")":
                        d += 1
                    elif ch == "(":
                        d -= 1
                        if d == 0:
                            break
                    i -= 1
                callee, argstr = callexpr[:i], callexpr[i + 1:-1]
                args = [self.operand(a.strip(), frame, mem) for a in split_top(argstr, ",") if a.strip()]
                for mem2, path2, ret in self.call(callee, args, mem, path, depth):
                    if dest:
                        self.assign(dest, ret, frame, mem2)
                    yield from self.block(f, frame, nxt, mem2, path2, depth, steps + 1)
                return
            raise Unsupported("terminator: " + line)

    # ---- places (balanced-parenthesis parser; the base class only handles the shapes of the atomics kernels) ----
    def place(self, s, frame, mem):
        s = s.strip()
        m = re.fullmatch(r"_(\d+)", s)
        if m:
            return Ref((frame, int(m.group(1))))
        def balanced(t):
            d = 0
            for ch in t:
                d += ch == "("
                d -= ch == ")"
                if d < 0:
                    return False
            return d == 0
        if s.startswith("(") and s.endswith(")") and balanced(s[1:-1]):
            inner = s[1:-1]
            if inner.startswith("*"):
                r = self.load(self.place(inner[1:], frame, mem), mem)
                if not isinstance(r, Ref):
                    raise Unsupported("deref of non-reference in " + s)
                return r
            m = re.fullmatch(r"(.+) as (\w+)", inner)
            if m and balanced(m.group(1)):
                base = self.place(m.group(1), frame, mem)
                return Ref(base.base, base.path + ("as" + m.group(2),))
            d = 0
            for i, ch in enumerate(inner):
                d += ch == "("
                d -= ch == ")"
                if d == 0 and ch == ".":
                    m = re.match(r"\.(\d+): ", inner[i:])
                    if m:
                        base = self.place(inner[:i], frame, mem)
                        return Ref(base.base, base.path + (int(m.group(1)),))
        raise Unsupported("place: " + s)

    # ---- values -------------------------------------------------------------------------------
    def load(self, ref, mem):
        v = mem.get(ref.base) if ref.base in mem else self.shared.get(ref.base)
        if v is None:
            raise Unsupported("uninitialised local " + repr(ref.base))
        variant = None
        for p in ref.path:
            if isinstance(p, str) and p.startswith("as"):
                variant = p[2:]
                if isinstance(v, Struct) and v.tag != variant:
                    raise Unsupported("variant downcast")
                continue
            if isinstance(v, SymEnum):
                if variant is None or variant not in v.payloads:
                    raise Unsupported("field of an enum without a variant downcast")
                v = v.payloads[variant][p]
                variant = None
                continue
            if not isinstance(v, Struct):
                raise Unsupported("field of non-struct")
            v = v.fields[p]
            variant = None
        return v

    def rvalue(self, rv, frame, mem):
        rv = rv.strip()
        if rv.startswith("{closure@"):
            return Konst("closure")
        if rv.startswith("(") and rv.endswith(")"):
            parts = [x.strip() for x in split_top(rv[1:-1], ",") if x.strip()]
            if parts and all(re.match(r"(copy|move|const) ", x) for x in parts):
                return Struct({i: self.operand(x, frame, mem) for i, x in enumerate(parts)}, tag="tuple")
        m = re.fullmatch(r"error::ErrorKind::(\w+)", rv)
        if m:
            return SymEnum("ErrorKind", bv(self.vidx(m.group(1))).t, {})
        m = re.fullmatch(r"error::ErrorKind::(\w+)\((.*)\)", rv)
        if m:
            args = [self.operand(x, frame, mem) for x in split_top(m.group(2), ",") if x.strip()]
            return SymEnum("ErrorKind", bv(self.vidx(m.group(1))).t, {m.group(1): {i: a for i, a in enumerate(args)}})
        m = re.fullmatch(r"Result::<.*>::(Ok|Err)\((.*)\)", rv)
        if m:
            return Struct({0: self.operand(m.group(2), frame, mem)}, tag=m.group(1))
        m = re.fullmatch(r"discriminant\((.+)\)", rv)
        if m:
            v = self.load(self.place(m.group(1), frame, mem), mem)
            if isinstance(v, SymEnum):
                return BV(v.disc)
            if isinstance(v, Struct) and v.tag in ("Ok", "Err"):
                return bv(0 if v.tag == "Ok" else 1)
        return super().rvalue(rv, frame, mem)

    # ---- calls --------------------------------------------------------------------------------
    def call(self, callee, args, mem, path, depth):
        c = re.sub(r"\s+", " ", callee.strip())
        if c == "<&[&str] as IntoIterator>::into_iter":
            if not (isinstance(args[0], Konst) and args[0].k.endswith("::EXTENSIONS")):
                raise Unsupported("the loop does not iterate over T::EXTENSIONS: " + repr(getattr(args[0], "k", args[0])))
            yield mem, path, IterV(0)
            return
        if c == "<std::slice::Iter<'_, &str> as Iterator>::next":
            it = self.load(self.load_ref(args[0]), mem)
            if not isinstance(it, IterV):
                raise Unsupported("next on an unknown iterator")
            pos = it.pos
            if pos < self.N:
                m2, p2 = copy.deepcopy(mem), copy.deepcopy(path)
                self.load(args[0], m2).pos = pos + 1
                p2.conds.append(f"(bvugt n (_ bv{pos} 64))")
                yield m2, p2, Struct({0: Ref(("ext", pos))}, tag="Some")
            path.conds.append(f"(= n (_ bv{pos} 64))")
            yield mem, path, Struct({}, tag="None")
            return
        if re.fullmatch(r"<\{closure@src/asset\.rs:[\d: ]+\} as Fn<\(&str,\)>>::call", c):
            j = sum(1 for e in path.events if e.kind == "call")
            ext = args[1].fields[0] if isinstance(args[1], Struct) else None
            if isinstance(ext, Ref):
                ext = self.load(ext, mem)
            path.events.append(Event("call", j, arg=ext.i if isinstance(ext, ExtItem) else None))
            io_i, cv_i = self.vidx("Io"), self.vidx("Conversion")
            self.domain[f"r{j}"] = {0, 1}
            self.domain[f"d{j}"] = {io_i, cv_i}
            ek = SymEnum("ErrorKind", f"d{j}", {"Io": {0: IoErr(j)}, "Conversion": {0: ConvErr(j)}}, origin=j)
            yield mem, path, SymEnum("Result", f"r{j}", {"Ok": {0: AssetV(j)}, "Err": {0: ek}}, origin=j)
            return
        if c == "core::str::<impl str>::is_empty":
            # only meaningful on a declared extension: z_j = "extension j is the empty string" (a legal extension:
            # it is the default list, and names the file without extension)
            e = args[0]
            if isinstance(e, Ref):
                e = self.load(e, mem)
            if not isinstance(e, ExtItem):
                raise Unsupported("is_empty() of something else than a declared extension")
            self.domain[f"z{e.i}"] = {0, 1}
            yield mem, path, BoolV(f"(= z{e.i} (_ bv1 64))")
            return
        if c == "std::io::Error::kind":
            e = self.load(self.load_ref(args[0]), mem)
            if not isinstance(e, IoErr):
                raise Unsupported("kind() of an unknown io::Error")
            yield mem, path, BV(f"k{e.j}")
            return
        if c == "<std::io::ErrorKind as PartialEq>::eq":
            vals = []
            for a in args:
                if isinstance(a, Konst):
                    name = next((v for k, v in self.promoted.items() if a.k.split("::")[-2:] == k.split("::")[-2:]), None)
                    if name is None:
                        raise Unsupported("unknown promoted constant " + a.k)
                    vals.append(bv(kind_number(name, self.kinds)).t)
                else:
                    v = self.load(self.load_ref(a), mem)
                    if isinstance(v, Konst):
                        vals.append(bv(kind_number(v.k, self.kinds)).t)
                    elif isinstance(v, BV):
                        vals.append(v.t)
                    else:
                        raise Unsupported("io::ErrorKind operand")
            yield mem, path, BoolV(f"(= {vals[0]} {vals[1]})")
            return
        if re.fullmatch(r"<error::ErrorKind as Into<Box<dyn std::error::Error \+ Send \+ Sync>>>::into", c):
            yield mem, path, Boxed(args[0])
            return
        if c == "<T as Asset>::default_value":
            if not isinstance(args[1], Boxed):
                raise Unsupported("default_value is not given error.into()")
            yield mem, path, DefaultCall(args[1].inner)
            return
        yield from super().call(callee, args, mem, path, depth)

    def resolve(self, callee):
        if callee == "error::ErrorKind::or":
            return "ErrorKind::or"
        return None

    # ---- rank of an ErrorKind value as an SMT Int term ------------------------------------------
    def rank(self, e):
        if not isinstance(e, SymEnum) or e.ty != "ErrorKind":
            raise Unsupported("rank of a non-ErrorKind value")
        def io_rank():
            p = e.payloads.get("Io", {}).get(0)
            if not isinstance(p, IoErr):
                raise Unsupported("Io variant without a known io::Error")
            return f"(ite (= k{p.j} (_ bv{NOTFOUND} 64)) 1 2)"
        io_i, cv_i, nd_i = self.vidx("Io"), self.vidx("Conversion"), self.vidx("NoDefaultValue")
        m = re.fullmatch(r"\(_ bv(\d+) 64\)", e.disc)
        if m:
            d = int(m.group(1))
            return "3" if d == cv_i else (io_rank() if d == io_i else "0")
        return f"(ite (= {e.disc} (_ bv{cv_i} 64)) 3 (ite (= {e.disc} (_ bv{io_i} 64)) {io_rank()} 0))"


def load_kernel(repo, fns_text_fns):
    """fns_text_fns: list of parsed MIR functions; returns (fns dict, variants, promoted)"""
    fns = fns_text_fns
    lfs = [f for f in fns if f.name == "load_from_source"]
    if len(lfs) != 1:
        raise Unsupported("load_from_source not found (or ambiguous) in the MIR dump")
    out = {"load_from_source": lfs[0], "ErrorKind::or": M.find_fn(fns, "src/error.rs", "or", "error::ErrorKind", 2)}
    src = open(os.path.join(repo, "src/error.rs")).read()
    m = re.search(r"enum ErrorKind \{(.*?)\n\}", src, flags=re.S)
    if not m:
        raise Unsupported("enum ErrorKind not found in src/error.rs")
    body = re.sub(r"//[^\n]*", "", m.group(1))
    variants = [v.strip().split("(")[0].strip() for v in split_top(body, ",") if v.strip()]
    if sorted(variants) != ["Conversion", "Io", "NoDefaultValue"]:
        raise Unsupported("ErrorKind variants changed: " + repr(variants))
    return out, variants


def parse_promoted(text):
    prom = {}
    for m in re.finditer(r"^const ([^\n]*?::promoted\[\d+\]): &std::io::ErrorKind = \{\n(.*?)^\}\n", text, flags=re.M | re.S):
        v = re.search(r"_1 = ([\w:]+);", m.group(2))
        if v:
            prom[m.group(1)] = v.group(1)
    return prom


def explore(fns, variants, promoted, N):
    ex = FoldExec(fns, N, variants, promoted)
    paths = []
    for mem, path, ret in ex.run("load_from_source", [Konst("source"), Konst("id")]):
        paths.append((path, ret))
    return ex, paths


def decls(N):
    out = ["(set-logic ALL)", "(declare-const n (_ BitVec 64))", f"(assert (bvule n (_ bv{N} 64)))"]
    return out


def preamble(ex, N):
    out = decls(N)
    for j in range(N):
        out += [f"(declare-const r{j} (_ BitVec 64))", f"(declare-const d{j} (_ BitVec 64))", f"(declare-const k{j} (_ BitVec 64))",
                f"(assert (or (= r{j} (_ bv0 64)) (= r{j} (_ bv1 64))))",
                f"(assert (or (= d{j} (_ bv{ex.vidx('Io')} 64)) (= d{j} (_ bv{ex.vidx('Conversion')} 64))))",
                f"(declare-const z{j} (_ BitVec 64))", f"(assert (or (= z{j} (_ bv0 64)) (= z{j} (_ bv1 64))))"]
    return out


def conj(cs):
    cs = [c for c in cs if c != "true"]
    return "true" if not cs else ("(and " + " ".join(cs) + ")" if len(cs) > 1 else cs[0])


def rank_j(ex, j):
    return f"(ite (= d{j} (_ bv{ex.vidx('Conversion')} 64)) 3 (ite (= k{j} (_ bv{NOTFOUND} 64)) 1 2))"


def path_property(ex, path, ret):
    """SMT Bool term: what the property demands of this path's outcome, in terms of the input symbols only."""
    calls = [(e.obj, e.arg) for e in path.events if e.kind == "call"]
    in_order = all(j == i and a == i for i, (j, a) in enumerate(calls))
    if not in_order:
        return "false", "extensions are not tried in declaration order, each once"
    L = len(calls)
    if isinstance(ret, Struct) and ret.tag == "Ok":
        a = ret.fields[0]
        if not isinstance(a, AssetV) or L == 0 or a.j != L - 1:
            return "false", "the value returned is not the result of the last extension tried"
        i = L - 1
        return conj([f"(bvugt n (_ bv{i} 64))", f"(= r{i} (_ bv0 64))"] + [f"(= r{j} (_ bv1 64))" for j in range(i)]), f"ok@{i}"
    if isinstance(ret, DefaultCall):
        mx = "0"
        for j in range(L):
            mx = f"(ite (> {rank_j(ex, j)} {mx}) {rank_j(ex, j)} {mx})"
        return conj([f"(= n (_ bv{L} 64))"] + [f"(= r{j} (_ bv1 64))" for j in range(L)] + [f"(= {ex.rank(ret.err)} {mx})"]), f"default@{L}"
    if isinstance(ret, Struct) and ret.tag == "Err":
        return "false", "nodefault"   # an error is returned without asking default_value
    raise Unsupported("outcome of load_from_source not understood: " + repr(ret))


def vector_of(model, N):
    def num(x):
        if x is None: return 0
        if x.startswith("#x"): return int(x[2:], 16)
        m = re.match(r"\(_ bv(\d+)", x)
        return int(m.group(1)) if m else int(x)
    n = num(model.get("n"))
    return n, [(num(model.get(f"r{j}")), num(model.get(f"d{j}")), num(model.get(f"k{j}"))) for j in range(min(n, N))]


def letters(ex, n, vec):
    s = ""
    for (r, d, k) in vec[:n]:
        s += "o" if r == 0 else ("c" if d == ex.vidx("Conversion") else ("n" if k == NOTFOUND else "p"))
    return s


def c03_queries(repo, fns_list, mir_text, N, log, native, result):
    res = []
    fns, variants = load_kernel(repo, fns_list)
    promoted = parse_promoted(mir_text)
    t0 = time.time()
    ex, paths = explore(fns, variants, promoted, N)
    t_sym = time.time() - t0
    pre = preamble(ex, N)
    props = [path_property(ex, p, r) for (p, r) in paths]
    bounds = (f"load_from_source + ErrorKind::or from MIR; n <= {N} declared extensions, every Ok/Io/Conversion outcome per extension, "
              f"io::ErrorKind an arbitrary 64-bit value; {len(paths)} control paths, symbolic execution {t_sym:.2f}s")
    want = ["n"] + [f"{v}{j}" for j in range(N) for v in "rdkz"]
    # 1. violation
    bad = ["(and " + conj(p.conds) + " (not " + pr[0] + "))" for (p, _), pr in zip(paths, props)]
    lines = pre + ["(assert (or " + " ".join(bad) + "))"]
    v, model, dt, raw = M.solve(lines, want_model_vars=want)
    r = result(f"C03-fold-N{N}:violation", v, "unsat", dt, bounds, {"paths": len(paths), "functions": sorted(ex.encoded)})
    if v == "sat":
        n, vec = vector_of(model, N)
        word = letters(ex, n, vec)
        zs = [j for j in range(N) if model.get(f"z{j}", "#x0").endswith("1") and j < n]
        # which path does the model take? a path that fails without asking default_value is replayed on a
        # type whose default_value succeeds ('+' prefix of the reproducer)
        fixed = pre + [f"(assert (= {k} {val}))" for k, val in model.items()]
        for (p, _), pr in zip(paths, props):
            if pr[1] == "nodefault" and M.solve(fixed + [f"(assert {conj(p.conds)})"])[0] == "sat":
                word = "+" + (word or "-")
                break
        if zs:
            # an empty-string extension is involved: the reproducer has a type family whose first extension is ""
            zq = pre + ["(assert (= z0 (_ bv1 64)))"] + [f"(assert (= z{j} (_ bv0 64)))" for j in range(1, N)] + ["(assert (or " + " ".join(bad) + "))"]
            # prefer the observable case: the file without extension is there and decodable
            v0, model0, _, _ = M.solve(zq + ["(assert (= r0 (_ bv0 64)))"], want_model_vars=want)
            if v0 != "sat":
                v0, model0, _, _ = M.solve(zq, want_model_vars=want)
            if v0 == "sat":
                n, vec = vector_of(model0, N)
                word = "0" + (letters(ex, n, vec) or "-")
            else:
                word = "?" + word      # not replayable: stays inconclusive
        r["counterexample"] = {"n": n, "outcomes": word, "legend": "o=decodable c=undecodable n=not found p=other io error"}
        r["why"] = f"load_from_source with {n} extension(s) and outcomes '{word}' violates first-usable-extension / error precedence"
        try:
            rc, out = native("c03_fold", [word or "-"])
        except Exception as e:  # noqa
            rc, out = -1, repr(e)
        rep = "C03-FOLD-REPRODUCED" in out
        r["native_replay"] = {"bin": "c03_fold", "args": word, "reproduced": rep, "tail": out[-300:]}
        log(f"[E2] native replay c03_fold {word}: {'reproduced' if rep else 'NOT reproduced'}")
        if not rep:
            r["outcome"] = "inconclusive"
            r["why"] = "solver counterexample did not reproduce on the real build: " + r["why"]
    res.append(r)
    log(f"[E2] C03-fold-N{N}:violation: {v} ({dt:.2f}s, {len(paths)} paths)")
    # 2. completeness of the path enumeration
    lines = pre + ["(assert (not (or " + " ".join(conj(p.conds) for (p, _) in paths) + ")))"]
    v, _, dt, _ = M.solve(lines)
    res.append(result(f"C03-fold-N{N}:complete", v, "unsat", dt, bounds))
    # 3. reachability witnesses
    for name, sel in (("reach_default", f"default@{N}"), ("reach_last_ok", f"ok@{N - 1}")):
        cs = [conj(p.conds) for (p, _), pr in zip(paths, props) if pr[1] == sel]
        lines = pre + ["(assert (or " + " ".join(cs or ["false"]) + "))"]
        v, _, dt, _ = M.solve(lines)
        res.append(result(f"C03-fold-N{N}:{name}", v, "sat", dt, bounds))
    return res, ex, paths, props


def validate(ex, paths, props, N, log, native):
    """Encoder vs. real build on every outcome word of length <= 2 (Serval-style validation)."""
    t0 = time.time()
    words = [""] + [a for a in "ocnp"] + [a + b for a in "cnp" for b in "ocnp"]
    try:
        rc, out = native("c03_fold", [w or "-" for w in words])
    except Exception as e:  # noqa
        rc, out = -1, repr(e)
    nat = dict(re.findall(r"^word=(\S+) actual=(\S+)", out, flags=re.M))
    if len(nat) != len(words):
        return [{"query": "C03-fold:translator_validation", "engine": "E2-mir2smt", "outcome": "inconclusive", "why": "native oracle did not run: " + out[-300:],
                 "wall_s": round(time.time() - t0, 2), "evaluations": 0, "distinct_nontrivial": 0}]
    mism = []
    for w in words:
        pre = preamble(ex, N) + [f"(assert (= n (_ bv{len(w)} 64)))"]
        for j, ch in enumerate(w):
            pre.append(f"(assert (= r{j} (_ bv{0 if ch == 'o' else 1} 64)))")
            if ch != "o":
                pre.append(f"(assert (= d{j} (_ bv{ex.vidx('Conversion') if ch == 'c' else ex.vidx('Io')} 64)))")
            if ch in "np":
                pre.append(f"(assert (= k{j} (_ bv{NOTFOUND if ch == 'n' else 7} 64)))")
        got = set()
        lines, want = list(pre), []
        for i, (p, ret) in enumerate(paths):
            lines += [f"(declare-const hit{i} Bool)", f"(assert (= hit{i} {conj(p.conds)}))"]
            want.append(f"hit{i}")
            if isinstance(ret, DefaultCall):
                lines += [f"(declare-const rk{i} Int)", f"(assert (= rk{i} {ex.rank(ret.err)}))"]
                want.append(f"rk{i}")
        v, model, _, _ = M.solve(lines, want_model_vars=want)
        for i, (p, ret) in enumerate(paths):
            if v == "sat" and model.get(f"hit{i}") == "true":
                got.add(f"ok:{ret.fields[0].j}" if isinstance(ret, Struct) and ret.tag == "Ok" else "err:" + str(model.get(f"rk{i}")))
        if got != {nat[w or "-"]}:
            mism.append({"word": w, "encoding": sorted(got), "native": nat[w or "-"]})
    r = {"query": "C03-fold:translator_validation", "engine": "E2-mir2smt", "wall_s": round(time.time() - t0, 2),
         "bounds": f"{len(words)} outcome words of length <= 2: outcome of the MIR encoding vs. the real build (replay/native c03_fold)",
         "outcome": "pass" if not mism else "inconclusive", "evaluations": len(words), "distinct_nontrivial": len(words) - len(mism)}
    if mism:
        r["why"] = "the MIR encoder disagrees with the real build on: " + repr(mism[:3])
    log(f"[E2] C03-fold translator validation: {len(words)} words, {len(mism)} disagreements")
    return [r]
