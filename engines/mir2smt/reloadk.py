"""E2, sequential kernel: `AnyCache::reload_untyped` (src/anycache.rs), from the MIR of /repo's tree.

Kani cannot decide this function (a successful load through `typ.inner.load` runs out of memory). Here the
function's own control flow is executed symbolically; everything it calls is the environment with symbolic
results: `get_cached_untyped` (found / not found), `UntypedHandle::is_hot_reloaded` (bool), `reloader()`
(present / absent), the load closure through `records::record` or directly (Ok(entry) / Err(error), plus the
recorded dependency set), logging off.  Events: LOAD (the closure is run), WRITE(handle, entry).
Property, per control path (path condition AND NOT property must be unsat for all paths):
  * the entry is looked up before anything else; nothing found -> no LOAD, no WRITE, result None;
  * found but not hot-reloaded (a value stored with get_or_insert / a static entry) -> no LOAD, no WRITE, None   [C10]
  * found, hot-reloaded: exactly one LOAD; Err -> no WRITE, result None (the cached value stays)                [C09]
                                           Ok(e) -> exactly one WRITE of e to the handle that was found,
                                                    result Some(dependencies recorded by THIS load)             [C06]
Queries: violation (expected unsat), complete (unsat), reach_write / reach_fail (sat).
A counterexample is reported with its outcome vector; replay: replay/native reload_kernel drives the public API
through the four situations and reports which one deviates.
"""
import copy
import re
import time

import mir2smt as M
from mir2smt import BV, BoolV, Ref, Struct, Konst, Event, Unsupported, bv
from seqfold import FoldExec, SymEnum, conj


class Obj:            # opaque environment object with an identity
    def __init__(self, name): self.name = name


class ReloadExec(FoldExec):
    def __init__(self, fns):
        super().__init__(fns, 0, [], {})
        for s in ("found", "hot", "has_reloader", "load_ok", "type_hot"):
            self.domain[s] = {0, 1}

    def rvalue(self, rv, frame, mem):
        rv = rv.strip()
        m = re.fullmatch(r"log::Level::(\w+)", rv)
        if m:
            return Konst("log::Level::" + m.group(1))
        m = re.fullmatch(r"Option::<Dependencies>::(None|Some)(?:\((.*)\))?", rv)
        if m:
            return Struct({0: self.operand(m.group(2), frame, mem)} if m.group(2) else {}, tag=m.group(1))
        if rv.startswith("{closure@src/anycache.rs"):
            return Obj("load_closure")
        return super().rvalue(rv, frame, mem)

    def operand(self, s, frame, mem):
        s2 = re.sub(r"^no_retag ", "", s.strip())
        if s2 in ("const ()", "const Option::<Infallible>::None"):
            return Konst(s2[6:])
        return super().operand(s, frame, mem)

    def load(self, ref, mem):
        # fields of opaque environment objects (typ.inner, ...) are opaque too
        v = mem.get(ref.base) if ref.base in mem else self.shared.get(ref.base)
        if isinstance(v, (Obj, Konst)) and ref.path:
            return Obj(getattr(v, "name", getattr(v, "k", "?")) + "." + ".".join(map(str, ref.path)))
        return super().load(ref, mem)

    def discr(self, v):
        return None

    def call(self, callee, args, mem, path, depth):
        c = re.sub(r"\s+", " ", callee.strip())
        def val(a):
            return self.load(a, mem) if isinstance(a, Ref) else a
        if c == "<SharedString as Deref>::deref":
            yield mem, path, Obj("id_str")
            return
        if c == "AnyCache::<'_>::get_cached_untyped":
            path.events.append(Event("lookup"))
            yield mem, path, SymEnum("Option", "found", {"Some": {0: Obj("HANDLE")}, "None": {}})
            return
        if c == "<Option<&UntypedHandle> as Try>::branch":
            o = val(args[0])
            if not (isinstance(o, SymEnum) and o.ty == "Option"):
                raise Unsupported("Try::branch on an unknown Option")
            # ControlFlow: Continue = 0, Break = 1 ; Option: None = 0, Some = 1
            yield mem, path, SymEnum("ControlFlow", f"(ite (= {o.disc} (_ bv1 64)) (_ bv0 64) (_ bv1 64))",
                                     {"Continue": {0: o.payloads["Some"][0]}, "Break": {0: Konst("residual")}})
            return
        if c == "<Option<Dependencies> as FromResidual<Option<Infallible>>>::from_residual":
            yield mem, path, Struct({}, tag="None")
            return
        if c == "UntypedHandle::is_hot_reloaded":
            h = val(args[0])
            if not (isinstance(h, Obj) and h.name == "HANDLE"):
                raise Unsupported("is_hot_reloaded of something else than the entry found")
            path.events.append(Event("askhot"))
            yield mem, path, BoolV("(= hot (_ bv1 64))")
            return
        if c == "key::Type::is_hot_reloaded":
            yield mem, path, BoolV("(= type_hot (_ bv1 64))")     # the type's flag: not what decides (the entry does)
            return
        if c == "AnyCache::<'_>::reloader":
            yield mem, path, SymEnum("Option", "has_reloader", {"Some": {0: Obj("RELOADER")}, "None": {}})
            return
        m = re.fullmatch(r"record::<\{closure@src/anycache\.rs:[\d: ]+\}, Result<CacheEntry, error::Error>>", c)
        if m:
            if not (isinstance(val(args[1]), Obj) and val(args[1]).name == "load_closure"):
                raise Unsupported("record() is not given the load closure")
            path.events.append(Event("load", "recorded"))
            res = SymEnum("Result", "(ite (= load_ok (_ bv1 64)) (_ bv0 64) (_ bv1 64))", {"Ok": {0: Obj("ENTRY")}, "Err": {0: Obj("ERROR")}})
            yield mem, path, Struct({0: res, 1: Obj("DEPS_RECORDED")}, tag="tuple")
            return
        if re.fullmatch(r"<\{closure@src/anycache\.rs:[\d: ]+\} as FnOnce<\(\)>>::call_once", c):
            if not (isinstance(val(args[0]), Obj) and val(args[0]).name == "load_closure"):
                raise Unsupported("call_once of something else than the load closure")
            path.events.append(Event("load", "plain"))
            yield mem, path, SymEnum("Result", "(ite (= load_ok (_ bv1 64)) (_ bv0 64) (_ bv1 64))", {"Ok": {0: Obj("ENTRY")}, "Err": {0: Obj("ERROR")}})
            return
        if c == "Dependencies::empty":
            yield mem, path, Obj("DEPS_EMPTY")
            return
        if c == "UntypedHandle::write":
            h, e = val(args[0]), val(args[1])
            path.events.append(Event("write", getattr(h, "name", "?"), arg=getattr(e, "name", "?")))
            yield mem, path, Konst("unit")
            return
        if c == "<Level as PartialOrd<LevelFilter>>::le":
            yield mem, path, BoolV("false")      # logging is off
            return
        yield from super().call(callee, args, mem, path, depth)

    def resolve(self, callee):
        return None

    def eq_const(self, v, n):
        # discriminants built as (ite (= s 1) 0 1) over a 0/1 symbol: decide syntactically
        if isinstance(v, BV):
            m = re.fullmatch(r"\(ite \(= (\w+) \(_ bv1 64\)\) \(_ bv0 64\) \(_ bv1 64\)\)", v.t)
            if m and n in (0, 1):
                return self.eq_const(BV(m.group(1)), 1 if n == 0 else 0)
            if m:
                return "false"
        if isinstance(v, BoolV):
            m = re.fullmatch(r"\(= (\w+) \(_ bv1 64\)\)", v.t)
            if m:
                return self.eq_const(BV(m.group(1)), 1 if n != 0 else 0)
        return super().eq_const(v, n)


def find(fns_list):
    c = [f for f in fns_list if re.fullmatch(r"anycache::<impl at src/anycache\.rs:[\d: ]+>::reload_untyped", f.name)]
    if len(c) != 1:
        raise Unsupported("AnyCache::reload_untyped not found (or ambiguous) in the MIR dump")
    return c[0]


def path_property(p, ret):
    ev = [(e.kind, e.obj, e.arg) for e in p.events if e.kind in ("lookup", "askhot", "load", "write")]
    loads = [e for e in ev if e[0] == "load"]
    writes = [e for e in ev if e[0] == "write"]
    some = isinstance(ret, Struct) and ret.tag == "Some"
    none = isinstance(ret, Struct) and ret.tag == "None"
    if not (some or none):
        raise Unsupported("result of reload_untyped not understood")
    if not ev or ev[0][0] != "lookup":
        return "false", "the entry is not looked up first"
    if any(w[1] != "HANDLE" or w[2] != "ENTRY" for w in writes) or len(writes) > 1 or len(loads) > 1:
        return "false", "writes something else than the loaded entry to the entry found, or loads / writes twice"
    # the order LOAD before WRITE, and the hot question before the LOAD
    names = [e[0] for e in ev]
    if writes and (not loads or names.index("load") > names.index("write")):
        return "false", "WRITE before LOAD"
    if loads and ("askhot" not in names or names.index("askhot") > names.index("load")):
        return "false", "the entry is loaded before (or without) asking whether it is hot-reloaded"
    L, W = ("true" if loads else "false"), ("true" if writes else "false")
    S = "true" if some else "false"
    eligible = "(and (= found (_ bv1 64)) (= hot (_ bv1 64)))"
    ok = "(= load_ok (_ bv1 64))"
    deps_ok = "true"
    if some:
        d = ret.fields.get(0)
        want = "DEPS_RECORDED" if (loads and loads[0][1] == "recorded") else "DEPS_EMPTY"
        deps_ok = "true" if getattr(d, "name", None) == want else "false"
    return conj([f"(= {L} {eligible})", f"(= {W} (and {eligible} {ok}))", f"(= {S} {W})", deps_ok]), \
        ("write" if writes else ("fail" if loads else "skip"))


def reload_queries(fns_list, log, native, result):
    f = find(fns_list)
    t0 = time.time()
    ex = ReloadExec({"reload_untyped": f})
    paths = [(p, r) for (_, p, r) in ex.run("reload_untyped", [Obj("cache"), Obj("id"), Obj("typ")])]
    pre = ["(set-logic ALL)"]
    for s in ("found", "hot", "has_reloader", "load_ok", "type_hot"):
        pre += [f"(declare-const {s} (_ BitVec 64))", f"(assert (or (= {s} (_ bv0 64)) (= {s} (_ bv1 64))))"]
    props = [path_property(p, r) for (p, r) in paths]
    bounds = (f"AnyCache::reload_untyped from MIR; entry found or not, hot-reloaded or not, reloader present or not, load Ok or Err (callees are the "
              f"environment); {len(paths)} control paths, symbolic execution {time.time() - t0:.2f}s")
    res = []
    bad = ["(and " + conj(p.conds) + " (not " + pr[0] + "))" for (p, _), pr in zip(paths, props)]
    v, model, dt, raw = M.solve(pre + ["(assert (or " + " ".join(bad) + "))"], want_model_vars=["found", "hot", "has_reloader", "load_ok", "type_hot"])
    r = result("reload_untyped:violation", v, "unsat", dt, bounds, {"paths": len(paths), "functions": sorted(ex.encoded)})
    if v == "sat":
        bit = lambda k: model.get(k, "#x0").endswith("1")
        sit = {"found": bit("found"), "hot_reloaded": bit("hot"), "reloader": bit("has_reloader"), "load_ok": bit("load_ok"), "type_reloadable": bit("type_hot")}
        r["counterexample"] = sit
        r["why"] = f"reload_untyped in situation {sit}: loads / writes / reports although it must not (or the reverse)"
        try:
            rc, out = native("reload_kernel", [])
        except Exception as e:  # noqa
            rc, out = -1, repr(e)
        rep = "RELOAD-KERNEL-REPRODUCED" in out
        r["native_replay"] = {"bin": "reload_kernel", "reproduced": rep, "tail": out[-400:]}
        log(f"[E2] native replay reload_kernel: {'reproduced' if rep else 'NOT reproduced'}")
        if not rep:
            r["outcome"] = "inconclusive"
            r["why"] = "solver counterexample did not reproduce on the real build: " + r["why"]
    res.append(r)
    log(f"[E2] reload_untyped:violation: {v} ({dt:.2f}s, {len(paths)} paths)")
    v, _, dt, _ = M.solve(pre + ["(assert (not (or " + " ".join(conj(p.conds) for (p, _) in paths) + ")))"])
    res.append(result("reload_untyped:complete", v, "unsat", dt, bounds))
    for name, tag in (("reach_write", "write"), ("reach_fail", "fail"), ("reach_skip", "skip")):
        cs = [conj(p.conds) for (p, _), pr in zip(paths, props) if pr[1] == tag]
        v, _, dt, _ = M.solve(pre + ["(assert (or " + " ".join(cs or ["false"]) + "))"])
        res.append(result(f"reload_untyped:{name}", v, "sat", dt, bounds))
    return res
