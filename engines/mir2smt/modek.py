"""E2, sequential kernel: the mode switch of the reloader (src/hot_reloading/paths.rs), from the MIR of /repo's tree.

`HotReloadingData` is either Local (updates run only while a `hot_reload` caller lends its cache) or Static (after
`enhance_hot_reloading`: updates run as soon as events arrive).  Encoded: `update_if_local`, `update_if_static`,
`use_static_ref` and `handle_events`, with `run_update` INLINED from its own MIR (so its clause "sort once, clear once,
reload every affected asset once, in order" is re-checked at every call site, not only for the function alone).
Symbolic: the mode before the call (Local / Static), the number n <= N of affected assets, the outcome of each reload.
Environment (stated): the graph and set operations and `DepsGraph::reload` as in the `run_update` kernel,
`BorrowedCache::new` (records which map and reloader it was given), `Events::for_each` (an `events` event; the
closure that filters and inserts the notified entries is executed from its MIR on each of e <= 2 notified entries, with
`DepsGraph::contains` answering a symbolic hit_i and `HashSet::insert` recorded), logging disabled.
Property per control path:
  update_if_local   Local  -> exactly one full update pass on the lent (map, reloader), mode stays Local
                    Static -> nothing happens, mode stays Static
  update_if_static  Static -> exactly one full update pass on the stored (map, reloader); Local -> nothing
  use_static_ref    Local  -> mode becomes Static(given map, given reloader) and exactly one full update pass on them
                              (what was notified before the switch is applied AND consumed: the pending set is cleared)
                    Static -> nothing happens
  handle_events     the whole batch is taken in first (each entry asked for once, inserted iff recorded by somebody), then
                    exactly `update_if_static`'s behaviour: at most one pass per batch, never a pass inside the batch
A "full update pass" = SORT, CLEAR, RELOAD(0) .. RELOAD(n-1), each exactly once, in this order.
"""
import re
import time

import mir2smt as M
from mir2smt import BV, Ref, Struct, Konst, Event, Unsupported, bv
from seqfold import SymEnum, conj
from reloadk import Obj
from runupdk import RunUpdExec

E_MAX = 2


class EventItem:
    def __init__(self, i): self.i = i


IMPL = r"paths::<impl at src/hot_reloading/paths\.rs:[\d: ]+>::"
ENTRIES = ("update_if_local", "update_if_static", "use_static_ref", "handle_events")


class ModeExec(RunUpdExec):
    def __init__(self, fns, N):
        super().__init__(fns, N)
        self.domain["mode"] = {0, 1}
        for i in range(E_MAX):
            self.domain[f"hit{i}"] = {0, 1}

    def rvalue(self, rv, frame, mem):
        rv = rv.strip()
        m = re.fullmatch(r"(?:hot_reloading::paths::)?CacheKind::Static\((.*)\)", rv)
        if m:
            a = [self.operand(x, frame, mem) for x in M.split_top(m.group(1), ",")]
            if len(a) != 2:
                raise Unsupported("CacheKind::Static with " + str(len(a)) + " fields")
            return SymEnum("CacheKind", bv(1).t, {"Static": {0: a[0], 1: a[1]}})
        if re.fullmatch(r"(?:hot_reloading::paths::)?CacheKind::Local", rv):
            return SymEnum("CacheKind", bv(0).t, {})
        m = re.fullmatch(r"((?:copy|move) _\d+) as &dyn source::Source \(PointerCoercion\(.*\)\)", rv)
        if m:
            return self.operand(m.group(1), frame, mem)   # unsizing keeps the referent
        return super().rvalue(rv, frame, mem)

    def operand(self, s, frame, mem):
        s2 = re.sub(r"^no_retag ", "", s.strip())
        if re.fullmatch(r"const .*::promoted\[\d+\]", s2):
            return Obj("promoted")
        if re.fullmatch(r"const (?:hot_reloading::paths::)?CacheKind::Local", s2):
            return SymEnum("CacheKind", bv(0).t, {})
        return super().operand(s, frame, mem)

    def call(self, callee, args, mem, path, depth):
        c = re.sub(r"\s+", " ", callee.strip())
        if c == "BorrowedCache::<'_>::new":
            a, b = self.val(args[0], mem), self.val(args[1], mem)
            path.events.append(Event("cache", (getattr(a, "name", "?"), getattr(b, "name", "?"))))
            yield mem, path, Obj("cache")
            return
        if c.startswith("Events::for_each::<"):
            path.events.append(Event("events"))
            if "hclosure" not in self.fns:
                yield mem, path, Konst("unit")
                return
            env = ("env", self.fresh("h"))
            mem[env] = self.val(args[1], mem)
            yield from self.each_event(0, env, mem, path, depth)
            return
        if c == "DepsGraph::contains":
            it = self.val(args[1], mem)
            if not isinstance(it, EventItem):
                raise Unsupported("DepsGraph::contains on something else than a notified entry")
            path.events.append(Event("asked", it.i))
            yield mem, path, M.BoolV(f"(= hit{it.i} (_ bv1 64))")
            return
        if c.endswith("::insert") and "HashSet" in c:
            it = self.val(args[1], mem)
            if not isinstance(it, EventItem):
                raise Unsupported("insertion of something else than a notified entry into the pending set")
            path.events.append(Event("insert", it.i))
            yield mem, path, M.BoolV("true")
            return
        yield from super().call(callee, args, mem, path, depth)

    def each_event(self, i, env, mem, path, depth):
        """`Events::for_each`: the closure (from its MIR) on each of e <= E notified entries, in order"""
        import copy
        if i < E_MAX:
            m2, p2 = copy.deepcopy(mem), copy.deepcopy(path)
            p2.conds.append(f"(bvugt e (_ bv{i} 64))")
            for m3, p3, _ in self.run("hclosure", [Ref(env), EventItem(i)], m2, p2, depth + 1):
                yield from self.each_event(i + 1, env, m3, p3, depth)
        path.conds.append(f"(= e (_ bv{i} 64))")
        yield mem, path, Konst("unit")

    def load(self, ref, mem):
        try:
            return super().load(ref, mem)
        except KeyError:
            # the MIR pretty-printer names only the first of several disjoint captures of `self`
            v = mem.get(ref.base)
            if isinstance(v, Struct) and v.tag == "closure":
                return Obj("capture")
            raise

    def resolve(self, callee):
        c = callee.strip()
        if c == "run_update":
            return "run_update"
        m = re.fullmatch(r"HotReloadingData::(\w+)", c)
        if m and m.group(1) in self.fns:
            return m.group(1)
        return None


def mode_queries(fns_list, N, log, native, result):
    fns = {}
    for f in fns_list:
        if f.name == "run_update":
            fns["run_update"] = f
        m = re.fullmatch(r"run_update::\{closure#\d+\}", f.name)
        if m:
            fns["closure:" + f.name] = f
        if re.fullmatch(IMPL + r"handle_events::\{closure#0\}", f.name):
            fns["hclosure"] = f
        m = re.fullmatch(IMPL + r"(\w+)", f.name)
        if m and m.group(1) in ENTRIES:
            if m.group(1) in fns:
                raise Unsupported("ambiguous " + m.group(1))
            fns[m.group(1)] = f
    missing = [e for e in ENTRIES + ("run_update",) if e not in fns]
    if missing:
        raise Unsupported("not found in the MIR dump: " + ", ".join(missing))
    pre = ["(set-logic ALL)", "(declare-const n (_ BitVec 64))", f"(assert (bvule n (_ bv{N} 64)))",
           "(declare-const mode (_ BitVec 64))", "(assert (or (= mode (_ bv0 64)) (= mode (_ bv1 64))))"]
    pre += ["(declare-const e (_ BitVec 64))", f"(assert (bvule e (_ bv{E_MAX} 64)))"]
    for i in range(E_MAX):
        pre += [f"(declare-const hit{i} (_ BitVec 64))", f"(assert (or (= hit{i} (_ bv0 64)) (= hit{i} (_ bv1 64))))"]
    for i in range(N):
        pre += [f"(declare-const ok{i} (_ BitVec 64))", f"(assert (or (= ok{i} (_ bv0 64)) (= ok{i} (_ bv1 64))))"]
    res = []
    for entry in ENTRIES:
        t0 = time.time()
        ex = ModeExec(fns, N)
        me = ("G", "self")
        mem0 = {me: Struct({0: Obj("source"), 1: Obj("changed"),
                            2: SymEnum("CacheKind", "mode", {"Static": {0: Obj("static_map"), 1: Obj("static_reloader")}}),
                            3: Obj("DEPS")}, tag="HotReloadingData")}
        args = {"update_if_local": [Ref(me), Obj("lent_map"), Obj("lent_reloader")],
                "update_if_static": [Ref(me)],
                "use_static_ref": [Ref(me), Obj("given_map"), Obj("given_reloader")],
                "handle_events": [Ref(me), Obj("events")]}[entry]
        runs = [(m, p) for (m, p, _) in ex.run(entry, args, mem0)]
        props = []
        for mem, p in runs:
            ev = [(e.kind, e.obj) for e in p.events if e.kind in ("sort", "clear", "reload", "cache", "events")]
            hits = "true"
            if entry == "handle_events":
                if ev[:1] != [("events", None)] or [k for k, _ in ev].count("events") != 1:
                    props.append(("false", "events-first"))
                    continue
                ev = ev[1:]
                # the whole batch is taken in first: every notified entry is asked for once, in order, and put into the
                # pending set iff somebody recorded it; only then may a pass run (at most once per batch)
                intake = [(e.kind, e.obj) for e in p.events if e.kind in ("asked", "insert", "sort")]
                first_sort = next((k for k, x in enumerate(intake) if x[0] == "sort"), len(intake))
                if any(x[0] != "sort" for x in intake[first_sort:]):
                    props.append(("false", "pass-inside-the-batch"))
                    continue
                asked = [o for (k, o) in intake if k == "asked"]
                ins = [o for (k, o) in intake if k == "insert"]
                if asked != list(range(len(asked))) or len(set(ins)) != len(ins):
                    props.append(("false", "intake"))
                    continue
                hits = "(and (= e (_ bv%d 64)) %s)" % (len(asked), " ".join(
                    (f"(= hit{i} (_ bv1 64))" if i in ins else f"(= hit{i} (_ bv0 64))") for i in asked) or "true")
            fin = mem[me].fields[2]
            if not isinstance(fin, SymEnum):
                raise Unsupported("mode field is not an enum value after " + entry)
            fin_static = fin.payloads.get("Static", {})
            fin_names = (getattr(fin_static.get(0), "name", None), getattr(fin_static.get(1), "name", None))
            runs_when, target = {"update_if_local": (0, ("lent_map", "lent_reloader")),
                                 "update_if_static": (1, ("static_map", "static_reloader")),
                                 "use_static_ref": (0, ("given_map", "given_reloader")),
                                 "handle_events": (1, ("static_map", "static_reloader"))}[entry]
            rel = [o for (k, o) in ev if k == "reload"]
            full = (len(ev) >= 3 and ev[0] == ("cache", target) and ev[1:3] == [("sort", None), ("clear", None)]
                    and [k for k, _ in ev[3:]] == ["reload"] * len(rel) and rel == list(range(len(rel))))
            if entry == "use_static_ref":
                mode_after_run = f"(= {fin.disc} (_ bv1 64))" if fin_names == target else "false"
            else:
                mode_after_run = f"(= {fin.disc} mode)"
            mode_after_idle = f"(= {fin.disc} mode)" if (fin.disc != bv(1).t or fin_names == ("static_map", "static_reloader")) else "false"
            if full:
                props.append((f"(and (= mode (_ bv{runs_when} 64)) (= n (_ bv{len(rel)} 64)) {mode_after_run} {hits})", f"pass{len(rel)}"))
            elif not ev:
                props.append((f"(and (= mode (_ bv{1 - runs_when} 64)) {mode_after_idle} {hits})", "idle"))
            else:
                props.append(("false", "shape"))
        bounds = (f"{entry} with run_update inlined, from MIR; mode before the call symbolic, n <= {N} affected assets, every outcome "
                  f"of each reload; {len(runs)} control paths, symbolic execution {time.time() - t0:.2f}s")
        bad = ["(and " + conj(p.conds) + " (not " + pr[0] + "))" for (_, p), pr in zip(runs, props)]
        want = ["mode", "n"] + [f"ok{i}" for i in range(N)]
        v, model, dt, raw = M.solve(pre + ["(assert (or " + " ".join(bad or ["false"]) + "))"], want_model_vars=want)
        r = result(f"mode-{entry}-N{N}:violation", v, "unsat", dt, bounds, {"paths": len(runs), "functions": sorted(ex.encoded)})
        if v == "sat":
            mode = "Static" if model.get("mode", "#x0").endswith("1") else "Local"
            nn = int(model.get("n", "#x0")[2:], 16) if model.get("n", "").startswith("#x") else 0
            r["counterexample"] = {"entry": entry, "mode_before": mode, "n": nn}
            r["why"] = (f"{entry} called in mode {mode} with {nn} affected assets: not (exactly one full update pass on the right cache "
                        f"when it must run, nothing otherwise, right mode afterwards)")
            try:
                rc, out = native("mode_switch", [entry])
            except Exception as e:  # noqa
                rc, out = -1, repr(e)
            rep = "MODE-SWITCH-REPRODUCED" in out
            r["native_replay"] = {"bin": "mode_switch", "reproduced": rep, "tail": out[-300:]}
            log(f"[E2] native replay mode_switch {entry}: {'reproduced' if rep else 'NOT reproduced'}")
            if not rep:
                r["outcome"] = "inconclusive"
                r["why"] = "solver counterexample did not reproduce on the real build: " + r["why"]
        res.append(r)
        log(f"[E2] mode-{entry}-N{N}:violation: {v} ({dt:.2f}s, {len(runs)} paths)")
        v, _, dt, _ = M.solve(pre + ["(assert (not (or " + " ".join(conj(p.conds) for (_, p) in runs) + ")))"])
        res.append(result(f"mode-{entry}-N{N}:complete", v, "unsat", dt, bounds))
        cs = [conj(p.conds) for (_, p), pr in zip(runs, props) if pr[1] == f"pass{N}"]
        v, _, dt, _ = M.solve(pre + ["(assert (or " + " ".join(cs or ["false"]) + "))"])
        res.append(result(f"mode-{entry}-N{N}:reach_full_pass", v, "sat", dt, bounds))
        cs = [conj(p.conds) for (_, p), pr in zip(runs, props) if pr[1] == "idle"]
        v, _, dt, _ = M.solve(pre + ["(assert (or " + " ".join(cs or ["false"]) + "))"])
        res.append(result(f"mode-{entry}-N{N}:reach_idle", v, "sat", dt, bounds))
    return res


if __name__ == "__main__":
    import sys
    text = open(sys.argv[1]).read()
    fl = M.parse_mir(text)
    def _res(q, v, e, dt, b, extra=None, raw=None):
        return {"query": q, "verdict": v, "expect": e, "outcome": "pass" if v == e else "FAIL"}
    for r in mode_queries(fl, 3, print, lambda b, a: (0, ""), _res):
        print(r)
