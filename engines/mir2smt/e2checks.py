"""E2 scenarios: C18 (AtomicReloadId callers), C06 (watcher polls vs increments), C16 (SharedBytes refcount)."""
import json
import os
import re
import shutil
import subprocess
import time

import concurrent.futures as cf

import mir2smt as M
from mir2smt import BV, BoolV, Ref, Struct, AtomicCell, Opaque, Exec, Scenario, Unsupported

VERIF = os.path.dirname(os.path.dirname(os.path.dirname(os.path.abspath(__file__))))

LISTED = {
    # key -> (file, method, first-param type fragment, nparams)
    "AtomicReloadId::update": ("src/entry.rs", "update", "&AtomicReloadId", 2),
    "AtomicReloadId::fetch_max": ("src/entry.rs", "fetch_max", "&AtomicReloadId", 2),
    "AtomicReloadId::swap": ("src/entry.rs", "swap", "&AtomicReloadId", 2),
    "AtomicReloadId::store": ("src/entry.rs", "store", "&AtomicReloadId", 2),
    "AtomicReloadId::load": ("src/entry.rs", "load", "&AtomicReloadId", 1),
    "AtomicReloadId::increment": ("src/entry.rs", "increment", "&AtomicReloadId", 1),
    "ReloadId::update": ("src/entry.rs", "update", "&mut ReloadId", 2),
    "ReloadWatcher::reloaded": ("src/entry.rs", "reloaded", "&mut ReloadWatcher", 1),
    "SharedBytes::clone": ("src/utils/bytes.rs", "clone", "&SharedBytes", 1),
    "SharedBytes::drop": ("src/utils/bytes.rs", "drop", "&mut SharedBytes", 1),
    "SharedBytes::drop_slow": ("src/utils/bytes.rs", "drop_slow", "&mut SharedBytes", 1),
    "SharedBytes::inner": ("src/utils/bytes.rs", "inner", "&SharedBytes", 1),
    "SharedBytes::deref": ("src/utils/bytes.rs", "deref", "&SharedBytes", 1),
}


def load_functions(repo, scratch, raw=False):
    text = M.dump_mir(repo, scratch)
    fns = M.parse_mir(text)
    if raw:
        return fns, text
    out = {}
    for key, (file, method, p0, n) in LISTED.items():
        out[key] = M.find_fn(fns, file, method, p0, n)
    # ReloadId must order like its single usize field (derive) for the comparison intrinsics used
    src = open(os.path.join(repo, "src/entry.rs")).read()
    if not re.search(r"#\[derive\([^\)]*PartialOrd[^\)]*\)\]\s*pub struct ReloadId\(usize\);", src):
        raise Unsupported("ReloadId is no longer a derive(PartialOrd) newtype over usize: comparison intrinsics not valid")
    return out


def paths_of(ex, key, args, mem=None, path=None):
    return [(m, p, r) for (m, p, r) in ex.run(key, args, mem, path)]


def ite_over_sel(t, vals, default):
    """term selecting vals[p] by sel{t}"""
    s = default
    for p in reversed(range(len(vals))):
        s = f"(ite (= sel{t} {p}) {vals[p]} {s})"
    return s


def result(query, verdict, expect, dt, bounds, extra=None, raw=None):
    ok = verdict == expect
    r = {"query": query, "engine": "E2-mir2smt", "wall_s": round(dt, 2), "bounds": bounds,
         "outcome": "pass" if ok else ("fail" if verdict in ("sat", "unsat") else "inconclusive"),
         "verdict": verdict, "expected": expect, "evaluations": 1, "distinct_nontrivial": 1 if ok else 0,
         "stats": {"solver_s": round(dt, 3)}}
    if not ok:
        r["why"] = f"solver verdict {verdict}, expected {expect}"
        if ":reach" in query and verdict == "unsat":
            # a reachability / vacuity witness: the situation it stands for is not reached by any encoded path
            r["outcome"] = "inconclusive"
            r["why"] = "vacuity witness not reachable in the encoding (the violation query decides nothing about this situation)"
    if extra:
        r.update(extra)
    return r


# ------------------------------------------------------------------------------------------------
def c18_queries(fns, K, log):
    """K threads, each calling one of update / fetch_max / swap / store (solver-chosen) with a symbolic id."""
    res = []
    for family in ("max_only", "mixed"):
        sc = Scenario(f"C18-{family}-K{K}")
        sc.declare("init")
        sc.cells["a"] = "init"
        shared = {"A": Struct({0: AtomicCell("a")})}
        rets, kinds = [], []
        encoded = set()
        for t in range(K):
            v = sc.declare(f"v{t}")
            ex = Exec(fns, t, shared)
            th, r_terms, k_terms = [], [], []
            ops = ["AtomicReloadId::update", "AtomicReloadId::fetch_max"] + (["AtomicReloadId::swap", "AtomicReloadId::store"] if family == "mixed" else [])
            for op in ops:
                for (m, p, r) in paths_of(ex, op, [Ref("A"), Struct({0: BV(v)})]):
                    th.append(p)
                    k_terms.append(str(ops.index(op)))
                    r_terms.append(r.t if isinstance(r, BoolV) else "false")
            encoded |= ex.encoded
            sc.threads.append(th)
            rets.append(ite_over_sel(t, r_terms, "false"))
            kinds.append(ite_over_sel(t, k_terms, "0"))
        lines, S = M.encode(sc, [])
        final = f"m_a_{S}"
        mx = "init"
        for t in range(K):
            mx = f"(ite (bvugt v{t} {mx}) v{t} {mx})"
        told = [f"(and (= {kinds[t]} 0) {rets[t]})" for t in range(K)]   # update callers told true
        is_upd = [f"(= {kinds[t]} 0)" for t in range(K)]
        props = []
        if family == "max_only":
            props.append(("final_is_max", f"(= {final} {mx})"))
            # a caller told true offered an id newer than the initial one
            props.append(("true_implies_newer", "(and " + " ".join(f"(=> {told[t]} (bvugt v{t} init))" for t in range(K)) + ")"))
            # if only update callers ran and the value grew, somebody was told
            props.append(("growth_is_reported", f"(=> (and {' '.join(is_upd)} (bvugt {final} init)) (or {' '.join(told)}))"))
            # the same id is never reported as a growth to two callers
            pairs = [f"(not (and {told[i]} {told[j]} (= v{i} v{j})))" for i in range(K) for j in range(i + 1, K)]
            props.append(("one_true_per_growth", "(and " + " ".join(pairs) + ")" if pairs else "true"))
            # number of callers told true <= number of distinct ids above init
        else:
            # with swap/store callers the value is always one of the offered ids or the initial one
            props.append(("value_is_offered", "(or (= " + final + " init) " + " ".join(f"(= {final} v{t})" for t in range(K)) + ")"))
            props.append(("true_implies_newer_than_something", "(and " + " ".join(f"(=> {told[t]} (bvugt v{t} (_ bv0 64)))" for t in range(K)) + ")"))
        bounds = f"{K} threads, one call each from {{update, fetch_max" + (", swap, store" if family == "mixed" else "") + "}, symbolic 64-bit ids and initial value, all interleavings of their atomic events (SC)"
        # vacuity twin: the scenario itself must be satisfiable
        v, model, dt, raw = M.solve(lines)
        res.append(result(f"{sc.name}:scenario_satisfiable", v, "sat", dt, bounds))
        def q(nt, lines=lines, S=S, final=final):
            return M.solve(lines + [f"(assert (not {nt[1]}))"], want_model_vars=["init"] + [f"v{t}" for t in range(K)] + [f"sel{t}" for t in range(K)] + [f"who_{s}" for s in range(S)] + [final])
        with cf.ThreadPoolExecutor(max_workers=4) as pool:
            solved = list(pool.map(q, props))
        for (name, term), (v, model, dt, raw) in zip(props, solved):
            r = result(f"{sc.name}:{name}", v, "unsat", dt, bounds, {"functions": sorted(encoded), "events_per_thread": [[len(p.events) for p in th] for th in sc.threads]})
            if v == "sat":
                r["counterexample"] = model
            res.append(r)
            log(f"[E2] {sc.name}:{name}: {v} ({dt:.2f}s)")
    return res


def c06_queries(fns, polls, incs, log):
    """one watcher polling `polls` times against `incs` increments of the same counter"""
    sc = Scenario(f"C06-polls{polls}-incs{incs}")
    sc.declare("init")
    sc.cells["a"] = "init"
    shared = {"A": Struct({0: AtomicCell("a")})}
    ex = Exec(fns, 0, shared)
    W = ("W", 0)
    watcher = Struct({0: Struct({0: Struct({0: Ref("A"), 1: Struct({0: BV("init")})})}, tag="Some"), 1: M.Konst("phantom")})
    states = [({W: watcher}, M.Path(), [])]
    for k in range(polls):
        nxt = []
        for mem, path, rs in states:
            for (m2, p2, r) in ex.run("ReloadWatcher::reloaded", [Ref(W)], mem, path):
                nxt.append((m2, p2, rs + [r.t]))
        states = nxt
    th0 = [p for (_, p, _) in states]
    rets = [[rs[k] for (_, _, rs) in states] for k in range(polls)]
    lasts = [ex.load(Ref(W, (0, "asSome", 0, 1, 0)), m).t for (m, _, _) in states]
    loads = [[e.res for e in p.events if e.kind == "atomic" and e.op == "load"] for p in th0]
    sc.threads.append(th0)
    ex1 = Exec(fns, 1, shared)
    states = [({}, M.Path())]
    for k in range(incs):
        nxt = []
        for mem, path in states:
            for (m2, p2, r) in ex1.run("AtomicReloadId::increment", [Ref("A")], mem, path):
                nxt.append((m2, p2))
        states = nxt
    sc.threads.append([p for (_, p) in states])
    lines, S = M.encode(sc, [])
    # no wrap-around inside the bound
    lines.append(f"(assert (bvult init (_ bv{(1 << 64) - 1 - incs} 64)))")
    props = []
    bounds = f"1 watcher x {polls} polls against {incs} increments, symbolic initial counter, all interleavings (SC)"
    ok_shape = all(len(l) == polls for l in loads)
    if not ok_shape:
        raise Unsupported("ReloadWatcher::reloaded no longer performs exactly one atomic load per poll; C06 query shape invalid")
    for p_i, p in enumerate(th0):
        pass
    ret = [ite_over_sel(0, rets[k], "false") for k in range(polls)]
    ld = [ite_over_sel(0, [loads[p][k] for p in range(len(th0))], "init") for k in range(polls)]
    seen = "init"
    terms = []
    for k in range(polls):
        terms.append(f"(= {ret[k]} (bvugt {ld[k]} {seen}))")
        seen = f"(ite (bvugt {ld[k]} {seen}) {ld[k]} {seen})"
    props.append(("poll_true_iff_advanced_since_last_poll", "(and " + " ".join(terms) + ")"))
    props.append(("watcher_remembers_newest", f"(= {ite_over_sel(0, lasts, 'init')} {seen})"))
    final = f"m_a_{S}"
    props.append(("counter_counts_increments", f"(= {final} (bvadd init (_ bv{incs} 64)))"))
    props.append(("growth_seen_or_pending", f"(=> (bvugt {final} init) (or {' '.join(ret)} (bvugt {final} {seen})))"))
    res = []
    v, model, dt, raw = M.solve(lines)
    res.append(result(f"{sc.name}:scenario_satisfiable", v, "sat", dt, bounds))
    def q(nt):
        return M.solve(lines + [f"(assert (not {nt[1]}))"], want_model_vars=["init"] + [f"who_{s}" for s in range(S)])
    with cf.ThreadPoolExecutor(max_workers=4) as pool:
        solved = list(pool.map(q, props))
    for (name, term), (v, model, dt, raw) in zip(props, solved):
        r = result(f"{sc.name}:{name}", v, "unsat", dt, bounds, {"functions": sorted(ex.encoded | ex1.encoded)})
        if v == "sat":
            r["counterexample"] = model
        res.append(r)
        log(f"[E2] {sc.name}:{name}: {v} ({dt:.2f}s)")
    return res


def c06_flag_queries(fns_list, K, log):
    """K threads poll `reloaded_global` once each while one reload sets the flag: a reload is reported to at most one of them."""
    res = []
    cands = [f for f in fns_list if re.fullmatch(r"entry::<impl at src/entry\.rs:[\d: ]+>::reloaded_global::\{closure#1\}", f.name)]
    if not cands:
        raise Unsupported("reloaded_global::{closure#1} not found in the MIR dump")
    for ci, f in enumerate(cands):
        sc = Scenario(f"C06-flag{ci}-K{K}")
        sc.cells["g"] = "(_ bv0 64)"
        shared = {"D": Struct({0: M.Konst("lock"), 1: AtomicCell("g")})}
        rets, encoded = [], set()
        for t in range(K):
            ex = Exec({"poll": f}, t, shared)
            ps = paths_of(ex, "poll", [M.Konst("env"), Ref("D")])
            sc.threads.append([p for (_, p, _) in ps])
            rets.append(ite_over_sel(t, [r.t for (_, _, r) in ps], "false"))
            encoded |= ex.encoded
        w = M.Path()
        w.events.append(M.Event("atomic", "g", "store", "(_ bv1 64)", None, "Ordering::Release"))   # the write section sets the flag (C07)
        sc.threads.append([w])
        lines, S = M.encode(sc, [])
        bounds = f"{K} threads polling reloaded_global once each against one reload that sets the flag (flag initially clear), all interleavings (SC)"
        v, model, dt, raw = M.solve(lines)
        res.append(result(f"{sc.name}:scenario_satisfiable", v, "sat", dt, bounds))
        pairs = [f"(and {rets[i]} {rets[j]})" for i in range(K) for j in range(i + 1, K)]
        props = [("one_reload_reported_at_most_once", "(not (or " + " ".join(pairs) + "))"),
                 ("reported_or_still_pending", f"(or {' '.join(rets)} (= m_g_{S} (_ bv1 64)))")]
        for name, term in props:
            v, model, dt, raw = M.solve(lines + [f"(assert (not {term}))"], want_model_vars=[f"who_{s}" for s in range(S)])
            r = result(f"{sc.name}:{name}", v, "unsat", dt, bounds, {"functions": sorted(encoded)})
            if v == "sat":
                r["counterexample"] = model
                r["why"] = "one reload is reported to two pollers of reloaded_global (test-and-clear is not one atomic step), or a reload is lost"
            res.append(r)
            log(f"[E2] {sc.name}:{name}: {v} ({dt:.2f}s)")
    return res


def c16_queries(fns, K, with_clone, log):
    """K threads, each owning one handle of the same buffer: [clone; read clone; drop clone;] read; drop."""
    sc = Scenario(f"C16-K{K}-{'clone' if with_clone else 'plain'}")
    sc.declare("cap")
    sc.declare("len")
    sc.cells["count"] = f"(_ bv{K} 64)"
    shared = {"inner": Struct({0: AtomicCell("count"), 1: Ref("buf"), 2: Opaque("len"), 3: Opaque("cap")}), "buf": Struct({})}
    sc.objects = ["inner", "buf"]
    sc.notes["obj_name"] = {("free", "inner"): "inner", ("freebuf", "buf"): "buf"}
    sc.notes["guards"] = {("readbuf", "buf"): ["buf", "inner"], ("access", "inner"): ["inner"]}
    sc.notes["owner_of_cell"] = {"count": "inner"}
    encoded = set()
    orderings = []
    for t in range(K):
        ex = Exec(fns, t, shared)
        H = ("H", t)
        states = [({H: Struct({0: Ref("inner")})}, M.Path())]
        def step(states, key, argf, bind=None):
            out = []
            for mem, path in states:
                for (m2, p2, r) in ex.run(key, argf(mem), mem, path):
                    if bind:
                        m2[bind] = r
                    out.append((m2, p2))
            return out
        if with_clone and t == 0:
            C = ("C", t)
            states = step(states, "SharedBytes::clone", lambda m: [Ref(H)], bind=C)
            states = step(states, "SharedBytes::deref", lambda m: [Ref(C)])
            states = step(states, "SharedBytes::drop", lambda m: [Ref(C)])
        states = step(states, "SharedBytes::deref", lambda m: [Ref(H)])
        states = step(states, "SharedBytes::drop", lambda m: [Ref(H)])
        sc.threads.append([p for (_, p) in states])
        encoded |= ex.encoded
        for (_, p) in states:
            for e in p.events:
                if e.kind == "atomic":
                    orderings.append((e.op, e.ordering))
    lines, S = M.encode(sc, [])
    bounds = f"{K} threads each [{'clone; read; drop clone; ' if with_clone else ''}read; drop] on one shared buffer, symbolic capacity/len, all interleavings (SC)"
    props = [
        ("no_use_after_free", "(not uaf)"),
        ("header_freed_exactly_once", f"(= nfree_inner_{S} 1)"),
        ("vec_buffer_freed_once_iff_owned", f"(= nfree_buf_{S} (ite (= cap (_ bv0 64)) 0 1))"),
        ("count_reaches_zero", f"(= m_count_{S} (_ bv0 64))"),
    ]
    res = []
    v, model, dt, raw = M.solve(lines)
    res.append(result(f"{sc.name}:scenario_satisfiable", v, "sat", dt, bounds))
    def q(nt):
        return M.solve(lines + [f"(assert (not {nt[1]}))"], want_model_vars=["cap"] + [f"who_{s}" for s in range(S)] + [f"sel{t}" for t in range(K)])
    with cf.ThreadPoolExecutor(max_workers=4) as pool:
        solved = list(pool.map(q, props))
    for (name, term), (v, model, dt, raw) in zip(props, solved):
        r = result(f"{sc.name}:{name}", v, "unsat", dt, bounds, {"functions": sorted(encoded)})
        if v == "sat":
            r["counterexample"] = model
        res.append(r)
        log(f"[E2] {sc.name}:{name}: {v} ({dt:.2f}s)")
    # ordering rule (syntactic, from the MIR constants): decrement at least Release, Acquire before the free
    subs = [o for (op, o) in orderings if op == "fetch_sub"]
    acq = [o for (op, o) in orderings if op == "load"]
    ok = bool(subs) and all(o in ("Ordering::Release", "Ordering::AcqRel", "Ordering::SeqCst") for o in subs) and \
        bool(acq) and all(o in ("Ordering::Acquire", "Ordering::SeqCst") for o in acq)
    r = result(f"{sc.name}:release_acquire_rule", "unsat" if ok else "sat", "unsat", 0.0, "syntactic check of the ordering constants in the MIR of drop / drop_slow",
               {"orderings": sorted(set(map(str, orderings)))})
    if not ok:
        r["why"] = "reference-count decrement is not Release (or the Acquire before dealloc is missing): the last owner may free a buffer other threads still read"
    res.append(r)
    return res


# ------------------------------------------------------------------------------------------------
def native(binname, args, timeout=600):
    """runs a reproducer / oracle from replay/native against the real build of /repo's working tree"""
    env = dict(os.environ)
    env.setdefault("VERIF_REPO", "/repo")
    p = subprocess.run([os.path.join(VERIF, "replay", "native", "run.sh"), binname] + [str(a) for a in args],
                       capture_output=True, text=True, timeout=timeout, env=env)
    return p.returncode, p.stdout + p.stderr


def validate_translator(fns, log):
    """Single-thread semantics of every encoded AtomicReloadId / ReloadId operation, on boundary vectors,
    must equal the natively compiled function (Serval-style validation of the encoder)."""
    MAXV = (1 << 64) - 1
    vectors = [(0, 0), (0, 1), (1, 0), (5, 7), (7, 5), (7, 7), (MAXV, 0), (0, MAXV), (MAXV, MAXV), (MAXV - 1, MAXV)]
    ops = {"update": "AtomicReloadId::update", "fetch_max": "AtomicReloadId::fetch_max", "swap": "AtomicReloadId::swap",
           "store": "AtomicReloadId::store", "load": "AtomicReloadId::load"}
    args = []
    for op in ops:
        for (i, v) in vectors:
            args += [op, i, v]
    for (i, v) in vectors:
        args += ["plain_update", i, v]
    t0 = time.time()
    rc, out = native("e2_oracle", args)
    nat = {}
    for m in re.finditer(r"^(\w+) (\d+) (\d+) -> (\S+) (\d+)$", out, flags=re.M):
        nat[(m.group(1), int(m.group(2)), int(m.group(3)))] = (m.group(4), int(m.group(5)))
    if len(nat) != len(args) // 3:
        return [{"query": "E2:translator_validation", "engine": "E2-mir2smt", "outcome": "inconclusive", "why": "native oracle did not run: " + out[-300:],
                 "wall_s": round(time.time() - t0, 2), "evaluations": 0, "distinct_nontrivial": 0}]
    mism, n = [], 0
    for op, key in ops.items():
        for (i, v) in vectors:
            sc = Scenario("tv")
            sc.declare("init"); sc.declare("v0")
            sc.cells["a"] = "init"
            ex = Exec(fns, 0, {"A": Struct({0: AtomicCell("a")})})
            a = [Ref("A")] + ([Struct({0: BV("v0")})] if op != "load" else [])
            ps = paths_of(ex, key, a)
            sc.threads.append([p for (_, p, _) in ps])
            rets = [r for (_, _, r) in ps]
            lines, S = M.encode(sc, [])
            lines += [f"(assert (= init (_ bv{i} 64)))", f"(assert (= v0 (_ bv{v} 64)))"]
            rt = rets[0]
            if isinstance(rt, BoolV):
                lines += ["(declare-const retb Bool)", f"(assert (= retb {ite_over_sel(0, [r.t for r in rets], 'false')}))"]
                want = ["retb", f"m_a_{S}"]
            elif isinstance(rt, Struct):
                lines += ["(declare-const retv (_ BitVec 64))", f"(assert (= retv {ite_over_sel(0, [r.fields[0].t for r in rets], 'init')}))"]
                want = ["retv", f"m_a_{S}"]
            else:
                want = [f"m_a_{S}"]
            verdict, model, dt, raw = M.solve(lines, want_model_vars=want)
            n += 1
            def num(x):
                if x is None: return None
                if x.startswith("#x"): return int(x[2:], 16)
                return x
            got_ret = num(model.get("retb", model.get("retv")))
            got_fin = num(model.get(f"m_a_{S}"))
            exp_ret, exp_fin = nat[(op, i, v)]
            exp_ret_n = exp_ret if exp_ret in ("true", "false", "unit") else int(exp_ret)
            if verdict != "sat" or got_fin != exp_fin or (exp_ret_n != "unit" and got_ret != exp_ret_n):
                mism.append({"op": op, "init": i, "v": v, "encoding": [got_ret, got_fin], "native": [exp_ret_n, exp_fin], "verdict": verdict})
    # ReloadId::update (local, no shared memory): executed symbolically with a local object
    for (i, v) in vectors:
        ex = Exec(fns, 0, {})
        L = ("L", 0)
        res = [(m, p, r) for (m, p, r) in ex.run("ReloadId::update", [Ref(L), Struct({0: BV(f"(_ bv{v} 64)")})], {L: Struct({0: BV(f"(_ bv{i} 64)")})})]
        # concrete inputs: exactly one path is feasible; the others are unsat through their path conditions
        ok_any = False
        for (m, p, r) in res:
            lines = ["(set-logic ALL)", "(declare-const retb Bool)", "(declare-const fin (_ BitVec 64))", f"(assert (= retb {r.t}))", f"(assert (= fin {ex.load(Ref(L, (0,)), m).t}))"]
            lines += [f"(assert {c})" for c in p.conds]
            verdict, model, dt, raw = M.solve(lines, want_model_vars=["retb", "fin"])
            exp_ret, exp_fin = nat[("plain_update", i, v)]
            if verdict == "sat" and model.get("retb") == exp_ret and int(model.get("fin", "#x0")[2:], 16) == exp_fin:
                ok_any = True
        n += 1
        if not ok_any:
            mism.append({"op": "ReloadId::update", "init": i, "v": v})
    r = {"query": "E2:translator_validation", "engine": "E2-mir2smt", "wall_s": round(time.time() - t0, 2),
         "bounds": f"{n} (operation, init, id) vectors incl. 0, 1, usize::MAX: encoder vs natively compiled function",
         "outcome": "pass" if not mism else "inconclusive", "evaluations": n, "distinct_nontrivial": n - len(mism),
         "programs": n, "disagreements_checked": len(mism)}
    if mism:
        r["why"] = "the MIR encoder disagrees with the native function on: " + json.dumps(mism[:3])
    log(f"[E2] translator validation: {n} vectors, {len(mism)} disagreements")
    return [r]


def confirm_natively(prop, results, log):
    """E2 counterexamples are schedules; before they are reported the real build is stressed natively."""
    bad = [r for r in results if r.get("outcome") == "fail"]
    if prop == "C06":
        # only the flag queries have a native stress; the counter queries are reported with their schedule
        bad = [r for r in bad if "-flag" in r.get("query", "")]
    if not bad or prop not in ("C18", "C16", "C06"):
        return
    binname = {"C18": "e2_c18_stress", "C16": "e2_c16_stress", "C06": "e2_c06_flag_stress"}[prop]
    try:
        rc, out = native(binname, [], timeout=900)
    except Exception as e:  # noqa
        rc, out = -1, repr(e)
    rep = "E2-REPRODUCED" in out
    log(f"[E2] native stress {binname}: {'reproduced' if rep else 'NOT reproduced'} :: {out.strip().splitlines()[-2:] if out.strip() else ''}")
    for r in bad:
        r["native_replay"] = {"bin": binname, "reproduced": rep, "tail": out[-400:]}
        if not rep:
            r["outcome"] = "inconclusive"
            r["why"] = "solver counterexample (schedule in counterexample.json) did not reproduce under native stress: " + r.get("why", "")


# ------------------------------------------------------------------------------------------------
def run(prop, ctx, log):
    """entry point used by the runner; returns list of result dicts"""
    scratch = os.path.join(os.environ.get("VERIF_SCRATCH", "/var/tmp/verif-scratch"), f"e2-{prop}-{os.getpid()}")
    os.makedirs(scratch, exist_ok=True)
    t0 = time.time()
    try:
        thorough = ctx["tier"] == "thorough"
        M.TLIMIT = 900 if thorough else 120
        if prop == "C03":
            import seqfold
            repo = os.environ.get("VERIF_REPO", "/repo")
            fl, text = load_functions(repo, scratch, raw=True)
            out, ex, paths, props = seqfold.c03_queries(repo, fl, text, 3, log, native, result)
            out += seqfold.validate(ex, paths, props, 3, log, native)
            if thorough:
                out += seqfold.c03_queries(repo, fl, text, 8, log, native, result)[0]
            return out
        if prop in ("C09", "C10"):
            import reloadk
            repo = os.environ.get("VERIF_REPO", "/repo")
            fl, text = load_functions(repo, scratch, raw=True)
            out = reloadk.reload_queries(fl, log, native, result)
            if prop == "C09":
                # which error a failing load reports (a fault on a later extension must not be masked by "not found")
                import seqfold
                out += seqfold.c03_queries(repo, fl, text, 3, log, native, result)[0]
                # a failed reload does not keep the rest of the batch stale
                import runupdk
                out += runupdk.runupd_queries(fl, 6 if thorough else 3, log, native, result)
            return out
        if prop == "C07":
            # "values change only while some thread is inside hot_reload (unless enhance_hot_reloading was called), and
            # hot_reload does not return before its reloads are finished": in Local mode only a Ptr request runs a pass
            # (mode kernel: handle_events / update_if_static idle), and the answer is sent after update_if_local (thread kernel P1)
            import modek, threadk
            repo = os.environ.get("VERIF_REPO", "/repo")
            fl, text = load_functions(repo, scratch, raw=True)
            out = modek.mode_queries(fl, 6 if thorough else 3, log, native, result)
            out += threadk.thread_queries(repo, fl, 6 if thorough else 4, log, native, result)
            return out
        if prop in ("C08", "C15"):
            import threadk
            repo = os.environ.get("VERIF_REPO", "/repo")
            fl, text = load_functions(repo, scratch, raw=True)
            out = threadk.thread_queries(repo, fl, 4, log, native, result)
            if thorough:
                out += threadk.thread_queries(repo, fl, 6, log, native, result)
            return out
        if prop in ("C01", "C02"):
            import shards
            fl, text = load_functions(os.environ.get("VERIF_REPO", "/repo"), scratch, raw=True)
            return shards.shard_queries(fl, log, native, result)
        fns = load_functions(os.environ.get("VERIF_REPO", "/repo"), scratch)
        out = []
        if prop == "C18":
            out += c18_queries(fns, 2, log)
            out += validate_translator(fns, log)
            if thorough:
                out += c18_queries(fns, 3, log)
        elif prop == "C06":
            os.makedirs(scratch + "/flag", exist_ok=True)
            fl = M.parse_mir(M.dump_mir(os.environ.get("VERIF_REPO", "/repo"), scratch + "/flag"))
            import runupdk
            out += runupdk.runupd_queries(fl, 6 if thorough else 3, log, native, result)   # every affected asset reloaded exactly once per pass
            import modek
            out += modek.mode_queries(fl, 6 if thorough else 3, log, native, result)       # Local/Static mode switch: which calls run a pass, pending set consumed
            import threadk
            # "never re-reads the source on its own": the thread calls an update entry point only as the handler of a message it received (P2)
            out += threadk.thread_queries(os.environ.get("VERIF_REPO", "/repo"), fl, 6 if thorough else 4, log, native, result)
            out += c06_flag_queries(fl, 2, log)
            if thorough:
                out += c06_flag_queries(fl, 3, log)
            out += c06_queries(fns, 2, 1, log)
            out += c06_queries(fns, 2, 2, log) if thorough else []
            out += c06_queries(fns, 3, 1, log) if thorough else []
        elif prop == "C16":
            out += c16_queries(fns, 2, False, log)
            out += c16_queries(fns, 2, True, log)
            if thorough:
                out += c16_queries(fns, 3, False, log)
                # 3 threads with a clone (13 events): z3/cvc5 do not answer within the 120 s cap -> not run
        confirm_natively(prop, out, log)
        return out
    except Unsupported as e:
        return [{"query": f"{prop}:encoder", "engine": "E2-mir2smt", "outcome": "inconclusive", "why": "encoder: " + str(e), "wall_s": round(time.time() - t0, 2), "evaluations": 0, "distinct_nontrivial": 0}]
    finally:
        shutil.rmtree(scratch, ignore_errors=True)


if __name__ == "__main__":
    import sys
    for r in run(sys.argv[1], {"tier": sys.argv[2] if len(sys.argv) > 2 else "quick"}, print):
        print(json.dumps({k: r[k] for k in r if k not in ("counterexample",)})[:400])
