"""E2, sequential kernel: `run_update` (src/hot_reloading/paths.rs), from the MIR of /repo's tree.

One pass of the reloader over a batch of notified entries: the graph is asked for the affected assets in
topological order, the change set is cleared, and EVERY affected asset is reloaded, in that order, whatever the
outcome of the reloads before it (a failed reload of one asset must not keep unrelated assets stale).
Symbolic: the number n <= N of affected assets, the outcome ok_i of each `DepsGraph::reload`.  Environment
(stated): `topological_sort_from`, the set operations, `as_any_cache`, `DepsGraph::reload` (its own control flow
is `reload_untyped`'s kernel plus `DepsGraph::insert`, which is not encoded), the iterator over the sorted keys
(a counter against n); `Iterator::all` / `any` / `for_each`, if the code starts to use them, are executed as the
loops they are, with the closure body taken from the MIR.
Property per control path: SORT once, then CLEAR once, then RELOAD(0) .. RELOAD(n-1), each exactly once, in order.
"""
import copy
import re
import time

import mir2smt as M
from mir2smt import BV, BoolV, Ref, Struct, Konst, Event, Unsupported
from seqfold import FoldExec, IterV, conj
from reloadk import Obj


class KeyItem:
    def __init__(self, i): self.i = i


class RunUpdExec(FoldExec):
    def __init__(self, fns, N):
        super().__init__(fns, N, [], {})
        for i in range(N):
            self.domain[f"ok{i}"] = {0, 1}

    def rvalue(self, rv, frame, mem):
        rv = rv.strip()
        m = re.fullmatch(r"\{closure@[^}]*\} \{ (.*) \}", rv)
        if m:
            fields = {}
            for i, fs in enumerate(M.split_top(m.group(1), ",")):
                fields[i] = self.operand(fs.split(":", 1)[1], frame, mem)
            return Struct(fields, tag="closure")
        m = re.fullmatch(r"log::Level::(\w+)", rv)
        if m:
            return Konst("log::Level::" + m.group(1))
        return super().rvalue(rv, frame, mem)

    def operand(self, s, frame, mem):
        if re.sub(r"^no_retag ", "", s.strip()) == "const ()":
            return Konst("()")
        return super().operand(s, frame, mem)

    def load(self, ref, mem):
        v = mem.get(ref.base) if ref.base in mem else self.shared.get(ref.base)
        if isinstance(v, (Obj, Konst)) and ref.path:
            return Obj("field")
        return super().load(ref, mem)

    def val(self, a, mem):
        while isinstance(a, Ref):
            a = self.load(a, mem)
        return a

    def iter_next(self, itref, mem, path):
        """yields (mem, path, item or None) for a counter iterator against n"""
        it = self.val(itref, mem)
        if not isinstance(it, IterV):
            raise Unsupported("next on an unknown iterator")
        pos = it.pos
        if pos < self.N:
            m2, p2 = copy.deepcopy(mem), copy.deepcopy(path)
            self.val(itref, m2).pos = pos + 1
            p2.conds.append(f"(bvugt n (_ bv{pos} 64))")
            yield m2, p2, KeyItem(pos)
        path.conds.append(f"(= n (_ bv{pos} 64))")
        yield mem, path, None

    def fold_closure(self, kind, itref, closure, mem, path, depth):
        """Iterator::all / any / for_each over the sorted keys, as the loop it is"""
        key = next((k for k in self.fns if k.startswith("closure:")), None)
        if key is None:
            raise Unsupported("closure body of run_update not found in the MIR dump")
        for m2, p2, item in self.iter_next(itref, mem, path):
            if item is None:
                yield m2, p2, (BoolV("true") if kind == "all" else BoolV("false") if kind == "any" else Konst("unit"))
                continue
            env = ("env", self.fresh("c"))
            m2[env] = closure
            for m3, p3, ret in self.run(key, [Ref(env), item], m2, p2, depth + 1):
                if kind == "for_each":
                    yield from self.fold_closure(kind, itref, closure, m3, p3, depth)
                    continue
                if not isinstance(ret, BoolV):
                    raise Unsupported("closure of all/any does not return a bool")
                stop_when = "false" if kind == "all" else "true"
                for want, cond in (("true", ret.t), ("false", f"(not {ret.t})")):
                    self.cur_path = p3
                    c = self.eq_const(ret, 1 if want == "true" else 0)
                    if c == "false":
                        continue
                    m4, p4 = copy.deepcopy(m3), copy.deepcopy(p3)
                    if c != "true":
                        p4.conds.append(cond)
                    if want == stop_when:
                        yield m4, p4, BoolV(want)
                    else:
                        yield from self.fold_closure(kind, itref, closure, m4, p4, depth)

    def call(self, callee, args, mem, path, depth):
        c = re.sub(r"\s+", " ", callee.strip())
        if re.fullmatch(r"<private::HashSet<OwnedDirEntry> as Deref(Mut)?>::deref(_mut)?", c):
            yield mem, path, Obj("changed")
            return
        if c.endswith("::iter") and "HashSet" in c:
            yield mem, path, Obj("changed_iter")
            return
        if c.startswith("DepsGraph::topological_sort_from"):
            path.events.append(Event("sort"))
            yield mem, path, Obj("SORTED")
            return
        if c.endswith("::clear") and "HashSet" in c:
            path.events.append(Event("clear"))
            yield mem, path, Konst("unit")
            return
        if c == "TopologicalSort::into_iter":
            if not (isinstance(self.val(args[0], mem), Obj) and self.val(args[0], mem).name == "SORTED"):
                raise Unsupported("the loop does not iterate over the topological order")
            yield mem, path, IterV(0)
            return
        if re.fullmatch(r"<Rev<std::vec::IntoIter<private::OwnedKey>> as IntoIterator>::into_iter", c):
            yield mem, path, args[0]
            return
        if re.fullmatch(r"<Rev<std::vec::IntoIter<private::OwnedKey>> as Iterator>::next", c):
            for m2, p2, item in self.iter_next(args[0], mem, path):
                yield m2, p2, (Struct({0: item}, tag="Some") if item is not None else Struct({}, tag="None"))
            return
        m = re.fullmatch(r"<Rev<std::vec::IntoIter<private::OwnedKey>> as Iterator>::(all|any|for_each)::<.*>", c)
        if m:
            it = args[0]
            if not isinstance(it, Ref):
                tmp = ("it", self.fresh("i"))
                mem[tmp] = it
                it = Ref(tmp)
            yield from self.fold_closure(m.group(1), it, args[1], mem, path, depth)
            return
        if c == "BorrowedCache::<'_>::as_any_cache":
            yield mem, path, Obj("anycache")
            return
        if c == "DepsGraph::reload":
            k = self.val(args[2], mem)
            if not isinstance(k, KeyItem):
                raise Unsupported("reload of something else than a key of the topological order")
            path.events.append(Event("reload", k.i))
            yield mem, path, BoolV(f"(= ok{k.i} (_ bv1 64))")
            return
        if c == "<Level as PartialOrd<LevelFilter>>::le":
            yield mem, path, BoolV("false")
            return
        yield from super().call(callee, args, mem, path, depth)

    def resolve(self, callee):
        return None

    def eq_const(self, v, n):
        if isinstance(v, BoolV):
            m = re.fullmatch(r"\(= (\w+) \(_ bv1 64\)\)", v.t)
            if m:
                return FoldExec.eq_const(self, BV(m.group(1)), 1 if n != 0 else 0)
        return super().eq_const(v, n)


def runupd_queries(fns_list, N, log, native, result):
    main = [f for f in fns_list if f.name == "run_update"]
    if len(main) != 1:
        raise Unsupported("run_update not found (or ambiguous) in the MIR dump")
    fns = {"run_update": main[0]}
    for f in fns_list:
        if re.fullmatch(r"run_update::\{closure#\d+\}", f.name):
            fns["closure:" + f.name] = f
    t0 = time.time()
    ex = RunUpdExec(fns, N)
    mem0 = {("G", "changed"): Obj("changed"), ("G", "deps"): Obj("DEPS")}
    paths = [(p, r) for (_, p, r) in ex.run("run_update", [Ref(("G", "changed")), Ref(("G", "deps")), Obj("cache")], mem0)]
    pre = ["(set-logic ALL)", "(declare-const n (_ BitVec 64))", f"(assert (bvule n (_ bv{N} 64)))"]
    for i in range(N):
        pre += [f"(declare-const ok{i} (_ BitVec 64))", f"(assert (or (= ok{i} (_ bv0 64)) (= ok{i} (_ bv1 64))))"]
    props = []
    for p, _ in paths:
        ev = [(e.kind, e.obj) for e in p.events if e.kind in ("sort", "clear", "reload")]
        rel = [o for (k, o) in ev if k == "reload"]
        shape = ev[:2] == [("sort", None), ("clear", None)] and [k for k, _ in ev].count("sort") == 1 and [k for k, _ in ev].count("clear") == 1
        if not shape or rel != list(range(len(rel))):
            props.append(("false", "order"))
        else:
            props.append((f"(= n (_ bv{len(rel)} 64))", f"reloads{len(rel)}"))
    bounds = (f"run_update from MIR; n <= {N} affected assets, every outcome of each reload; {len(paths)} control paths, symbolic execution {time.time() - t0:.2f}s")
    res = []
    bad = ["(and " + conj(p.conds) + " (not " + pr[0] + "))" for (p, _), pr in zip(paths, props)]
    want = ["n"] + [f"ok{i}" for i in range(N)]
    v, model, dt, raw = M.solve(pre + ["(assert (or " + " ".join(bad) + "))"], want_model_vars=want)
    r = result(f"run_update-N{N}:violation", v, "unsat", dt, bounds, {"paths": len(paths), "functions": sorted(ex.encoded)})
    if v == "sat":
        n = int(model.get("n", "#x0")[2:], 16) if model.get("n", "").startswith("#x") else 0
        oks = "".join("1" if model.get(f"ok{i}", "#x1").endswith("1") else "0" for i in range(min(n, N)))
        r["counterexample"] = {"n": n, "reload_outcomes": oks}
        r["why"] = f"a batch of {n} affected assets with reload outcomes {oks} (1 = reloaded, 0 = failed): not every affected asset is reloaded exactly once, in order"
        try:
            rc, out = native("run_update_batch", [])
        except Exception as e:  # noqa
            rc, out = -1, repr(e)
        rep = "RUN-UPDATE-REPRODUCED" in out
        r["native_replay"] = {"bin": "run_update_batch", "reproduced": rep, "tail": out[-300:]}
        log(f"[E2] native replay run_update_batch: {'reproduced' if rep else 'NOT reproduced'}")
        if not rep:
            r["outcome"] = "inconclusive"
            r["why"] = "solver counterexample did not reproduce on the real build: " + r["why"]
    res.append(r)
    log(f"[E2] run_update-N{N}:violation: {v} ({dt:.2f}s, {len(paths)} paths)")
    v, _, dt, _ = M.solve(pre + ["(assert (not (or " + " ".join(conj(p.conds) for (p, _) in paths) + ")))"])
    res.append(result(f"run_update-N{N}:complete", v, "unsat", dt, bounds))
    cs = [conj(p.conds) for (p, _), pr in zip(paths, props) if pr[1] == f"reloads{N}"]
    v, _, dt, _ = M.solve(pre + ["(assert (or " + " ".join(cs or ["false"]) + "))"])
    res.append(result(f"run_update-N{N}:reach_full_batch", v, "sat", dt, bounds))
    return res
