#!/usr/bin/env python3
"""E2 — mir2smt: symbolic execution of the nightly MIR of a fixed list of loop-free atomics kernels
into SMT-LIB, with the thread interleaving as solver variables (DESIGN.md §3 E2, §5 S1).

Pipeline (regenerated from /repo's working tree on every run):
  cargo +nightly rustc -Zunpretty=mir  ->  parse the bodies of the listed functions  ->  symbolic
  execution per thread program (in-crate callees inlined; `Atomic::<usize>::*` calls become shared-memory
  events; dealloc / from_raw_parts become abstract FREE / READ events)  ->  bounded interleaving
  encoding (symbolic scheduler variable per step, sequentially consistent memory)  ->  negated property
  ->  z3 and cvc5 (must agree; any `(error` line = inconclusive).
Anything the encoder does not understand raises Unsupported  ->  the check exits 2, never passes.
"""
import copy
import os
import re
import shutil
import subprocess
import time

TLIMIT = 120  # seconds per solver call (raised for the thorough tier)
Z3 = "/usr/bin/z3"
CVC5 = "cvc5"


class Unsupported(Exception):
    pass


# ------------------------------------------------------------------------------------------------
# MIR dump + parser
def dump_mir(repo_src, scratch):
    dst = os.path.join(scratch, "mirrepo")
    shutil.rmtree(dst, ignore_errors=True)
    subprocess.check_call(["rsync", "-a", "--exclude", "target", "--exclude", ".git", repo_src + "/", dst + "/"])
    env = dict(os.environ)
    env["CARGO_NET_OFFLINE"] = "true"
    env.pop("RUSTFLAGS", None)
    p = subprocess.run(["cargo", "+nightly", "rustc", "--offline", "--lib", "--features", "hot-reloading",
                        "--target-dir", os.path.join(scratch, "mirtarget"), "--",
                        "-Zunpretty=mir", "-C", "debug-assertions=off", "-C", "overflow-checks=on"],
                       cwd=dst, env=env, capture_output=True, text=True, timeout=1200)
    if p.returncode != 0 or "fn " not in p.stdout:
        raise Unsupported("MIR dump failed: " + p.stderr[-800:])
    return p.stdout


class Fn:
    def __init__(self, header, name, params, blocks, text):
        self.header, self.name, self.params, self.blocks, self.text = header, name, params, blocks, text


def parse_mir(text):
    fns = []
    for m in re.finditer(r"^fn (.*?)\((.*?)\) -> (.*?) \{\n(.*?)^\}\n", text, flags=re.M | re.S):
        header = m.group(0).split("\n", 1)[0]
        name = m.group(1)
        params = [p.strip() for p in split_top(m.group(2), ",") if p.strip()]
        body = m.group(4)
        blocks = {}
        for b in re.finditer(r"^    (bb\d+)(?: \(cleanup\))?: \{\n(.*?)^    \}\n", body, flags=re.M | re.S):
            lines = [l.strip() for l in b.group(2).split("\n") if l.strip()]
            blocks[b.group(1)] = lines
        fns.append(Fn(header, name, params, blocks, m.group(0)))
    return fns


def split_top(s, sep):
    out, depth, cur = [], 0, ""
    for ch in s:
        if ch in "([{<":
            depth += 1
        elif ch in ")]}>":
            depth -= 1
        if ch == sep and depth == 0:
            out.append(cur)
            cur = ""
        else:
            cur += ch
    out.append(cur)
    return out


def find_fn(fns, file, method, first_param_type=None, nparams=None):
    """Select by source file of the impl, method name and (optionally) type of the first parameter."""
    cands = []
    for f in fns:
        if ("impl at " + file + ":") in f.name and f.name.endswith(">::" + method):
            if first_param_type is not None:
                if not f.params or first_param_type not in f.params[0].split(":", 1)[1]:
                    continue
            if nparams is not None and len(f.params) != nparams:
                continue
            cands.append(f)
    # duplicates (const fn twins) have identical bodies
    bodies = set(re.sub(r"\s+", " ", c.text) for c in cands)
    if not cands:
        raise Unsupported(f"function {file}::{method} not found in the MIR dump")
    if len(bodies) > 1:
        raise Unsupported(f"function {file}::{method} is ambiguous in the MIR dump")
    return cands[0]


# ------------------------------------------------------------------------------------------------
# values
class BV:          # 64-bit bit-vector term
    def __init__(self, t): self.t = t
class BoolV:
    def __init__(self, t): self.t = t
class Ref:         # pointer to a place: (base object id, path of field indices)
    def __init__(self, base, path=()): self.base, self.path = base, tuple(path)
class Struct:
    def __init__(self, fields, tag=None): self.fields, self.tag = dict(fields), tag
class Konst:       # opaque constants: orderings, layouts, unit
    def __init__(self, k): self.k = k
class AtomicCell:
    def __init__(self, name): self.name = name
class ResultV:     # Result<usize, usize> of a compare_exchange: Ok(old) iff ok, Err(old) otherwise
    def __init__(self, ok, value): self.ok, self.value = ok, value
class Opaque:      # immutable plain field of a shared object (symbolic value term)
    def __init__(self, t): self.t = t


def bv(n): return BV("(_ bv%d 64)" % (n % (1 << 64)))


class Event:
    def __init__(self, kind, obj=None, op=None, arg=None, res=None, ordering=None):
        self.kind, self.obj, self.op, self.arg, self.res, self.ordering = kind, obj, op, arg, res, ordering
    def __repr__(self):
        return f"{self.kind}:{self.op or ''}({self.obj}{',' + self.arg if self.arg else ''})[{self.ordering or ''}]"


class Path:
    def __init__(self):
        self.events, self.conds, self.ret = [], [], None


class Exec:
    """Symbolic executor of one thread program; enumerates control paths (the kernels are loop-free)."""
    def __init__(self, fns_by_key, tid, shared):
        self.fns, self.tid, self.shared = fns_by_key, tid, shared
        self.counter = 0
        self.encoded = set()

    def fresh(self, hint):
        self.counter += 1
        return f"t{self.tid}_{hint}_{self.counter}"

    # a "state" = (mem, path); forks deep-copy
    def run(self, key, args, mem=None, path=None, depth=0):
        """yields (mem, path, retval) for every control path of function `key` applied to args"""
        if depth > 6:
            raise Unsupported("call depth")
        f = self.fns[key]
        self.encoded.add(f.name)
        mem = mem if mem is not None else {}
        path = path if path is not None else Path()
        frame = self.fresh("F")
        for i, a in enumerate(args):
            mem[(frame, i + 1)] = a
        yield from self.block(f, frame, "bb0", mem, path, depth, 0)

    def block(self, f, frame, bb, mem, path, depth, steps):
        if steps > 60:
            raise Unsupported("block budget (loop?) in " + f.name)
        lines = f.blocks.get(bb)
        if lines is None:
            raise Unsupported("missing block " + bb)
        for idx, line in enumerate(lines):
            last = idx == len(lines) - 1
            self.cur_path = path
            self.cur_fn = f
            if not last:
                self.stmt(line, frame, mem)
                continue
            # terminator
            if line == "return;":
                yield mem, path, mem.get((frame, 0), Konst("unit"))
                return
            if line == "unreachable;":
                return
            m = re.match(r"goto -> (bb\d+);", line)
            if m:
                yield from self.block(f, frame, m.group(1), mem, path, depth, steps + 1)
                return
            m = re.match(r"switchInt\((.*?)\) -> \[(.*)\];", line)
            if m:
                v = self.operand(m.group(1), frame, mem)
                targets = [t.strip().split(": ") for t in m.group(2).split(",")]
                taken_conds = []
                for val, tgt in targets:
                    if val == "otherwise":
                        cond = "(and " + " ".join(f"(not {c})" for c in taken_conds) + ")" if taken_conds else "true"
                    else:
                        cond = self.eq_const(v, int(val))
                        taken_conds.append(cond)
                    if cond == "false":
                        continue
                    m2, p2 = copy.deepcopy(mem), copy.deepcopy(path)
                    if cond != "true":
                        p2.conds.append(cond)
                    yield from self.block(f, frame, tgt, m2, p2, depth, steps + 1)
                    if cond == "true":
                        break
                return
            m = re.match(r"(?:(\S+) = )?(.+?)\((.*)\) -> \[return: (bb\d+), unwind [^\]]*\];", line)
            if m:
                dest, callee, argstr, nxt = m.groups()
                args = [self.operand(a.strip(), frame, mem) for a in split_top(argstr, ",") if a.strip()]
                for mem2, path2, ret in self.call(callee, args, mem, path, depth):
                    if dest:
                        self.assign(dest, ret, frame, mem2)
                    yield from self.block(f, frame, nxt, mem2, path2, depth, steps + 1)
                return
            m = re.match(r"drop\((.*?)\) -> \[return: (bb\d+), unwind [^\]]*\];", line)
            if m:
                raise Unsupported("drop terminator in " + f.name)
            raise Unsupported("terminator: " + line)

    def eq_const(self, v, n):
        if isinstance(v, BoolV):
            if v.t in ("true", "false"):
                return "true" if (v.t == "true") == (n != 0) else "false"
            return v.t if n != 0 else f"(not {v.t})"
        if isinstance(v, BV):
            m = re.match(r"\(_ bv(\d+) 64\)", v.t)
            if m:
                return "true" if int(m.group(1)) == n else "false"
            return f"(= {v.t} (_ bv{n} 64))"
        raise Unsupported("switch on " + repr(v))

    # ---- places -------------------------------------------------------------------------------
    def place(self, s, frame, mem):
        """returns Ref for a place expression"""
        s = s.strip()
        m = re.fullmatch(r"_(\d+)", s)
        if m:
            return Ref((frame, int(m.group(1))))
        m = re.fullmatch(r"\(\*(.+)\)", s)
        if m:
            r = self.load(self.place(m.group(1), frame, mem), mem)
            if not isinstance(r, Ref):
                raise Unsupported("deref of non-reference in " + s)
            return r
        m = re.fullmatch(r"\((.+)\.(\d+): [^()]*(?:\([^()]*\)[^()]*)*\)", s) or re.fullmatch(r"\((.+)\.(\d+): .*\)", s)
        if m:
            base = self.place(m.group(1), frame, mem)
            return Ref(base.base, base.path + (int(m.group(2)),))
        m = re.fullmatch(r"\((.+) as (\w+)\)", s)
        if m:
            base = self.place(m.group(1), frame, mem)
            return Ref(base.base, base.path + ("as" + m.group(2),))
        raise Unsupported("place: " + s)

    def load(self, ref, mem):
        v = mem.get(ref.base) if ref.base in mem else self.shared.get(ref.base)
        if v is None:
            raise Unsupported("uninitialised local " + repr(ref.base))
        for p in ref.path:
            if isinstance(v, ResultV):
                if isinstance(p, str) and p in ("asOk", "asErr"):
                    continue
                if p == 0:
                    v = v.value
                    continue
                raise Unsupported("projection on a compare_exchange result")
            if isinstance(p, str) and p.startswith("as"):
                if not isinstance(v, Struct) or v.tag != p[2:]:
                    raise Unsupported("variant downcast")
                continue
            if not isinstance(v, Struct):
                raise Unsupported("field of non-struct")
            v = v.fields[p]
        return v

    def assign(self, dst, val, frame, mem):
        ref = self.place(dst, frame, mem)
        if ref.base in self.shared:
            raise Unsupported("plain store to shared object")
        if not ref.path:
            mem[ref.base] = val
            return
        v = mem[ref.base]
        for p in ref.path[:-1]:
            if isinstance(p, str):
                continue
            v = v.fields[p]
        v.fields[ref.path[-1]] = val

    # ---- operands / rvalues ---------------------------------------------------------------------
    def operand(self, s, frame, mem):
        s = s.strip()
        s = re.sub(r"^no_retag ", "", s)
        m = re.fullmatch(r"(?:copy|move) (.+)", s)
        if m:
            ref = self.place(m.group(1), frame, mem)
            v = self.load(ref, mem)
            if ref.base in self.shared and ref.path and not isinstance(v, AtomicCell):
                # plain (non-atomic) read of a field of a shared heap object
                self.cur_path.events.append(Event("access", ref.base))
            if isinstance(v, Opaque):
                return BV(v.t)
            return v
        m = re.fullmatch(r"const (\d+)_(?:usize|u64|isize|u8|u32)", s)
        if m:
            return bv(int(m.group(1)))
        if s in ("const true", "const false"):
            return BoolV(s.split()[1])
        m = re.fullmatch(r"const (.+)", s)
        if m:
            return Konst(m.group(1))
        raise Unsupported("operand: " + s)

    def is_signed(self, operand):
        """signedness of a comparison operand: literal suffix, or the declared type of the local in the current function"""
        operand = operand.strip()
        if re.search(r"_(isize|i64|i32|i16|i8)$", operand):
            return True
        m = re.fullmatch(r"(?:copy|move) _(\d+)", operand)
        f = getattr(self, "cur_fn", None)
        if m and f is not None:
            d = re.search(r"let (?:mut )?_%s: (\w+);" % m.group(1), f.text)
            return bool(d and d.group(1) in ("isize", "i64", "i32", "i16", "i8"))
        return False

    def stmt(self, line, frame, mem):
        if line.startswith(("StorageLive", "StorageDead", "nop", "FakeRead", "PlaceMention", "Retag", "AscribeUserType", "Coverage")):
            return
        m = re.fullmatch(r"(.+?) = (.+);", line)
        if not m:
            raise Unsupported("statement: " + line)
        dst, rv = m.group(1), m.group(2)
        self.assign(dst, self.rvalue(rv, frame, mem), frame, mem)

    def rvalue(self, rv, frame, mem):
        rv = rv.strip()
        m = re.fullmatch(r"&(?:mut |raw const |raw mut )?(.+)", rv)
        if m and not rv.startswith("&&"):
            return self.place(m.group(1), frame, mem)
        m = re.fullmatch(r"std::sync::atomic::Ordering::(\w+)", rv)
        if m:
            return Konst("Ordering::" + m.group(1))
        m = re.fullmatch(r"(Eq|Ne|Lt|Le|Gt|Ge)\((.+)\)", rv)
        if m:
            xs = split_top(m.group(2), ",")
            a, b = [self.operand(x, frame, mem) for x in xs]
            signed = any(self.is_signed(x) for x in xs)
            op = {"Eq": "=", "Ne": "distinct", "Lt": "bvult", "Le": "bvule", "Gt": "bvugt", "Ge": "bvuge"}[m.group(1)]
            if signed:
                op = op.replace("bvu", "bvs")
            return BoolV(f"({op} {a.t} {b.t})")
        m = re.fullmatch(r"(Add|Sub)(?:WithOverflow|Unchecked)?\((.+)\)", rv)
        if m:
            raise Unsupported("arithmetic rvalue: " + rv)
        m = re.fullmatch(r"discriminant\((.+)\)", rv)
        if m:
            v = self.load(self.place(m.group(1), frame, mem), mem)
            if isinstance(v, Struct) and v.tag in ("Some", "None"):
                return bv(1 if v.tag == "Some" else 0)
            if isinstance(v, ResultV):
                return BV(f"(ite {v.ok} (_ bv0 64) (_ bv1 64))")
            raise Unsupported("discriminant of " + repr(v))
        m = re.fullmatch(r"(.+) as (.+) \((\w+)\)", rv)
        if m:
            return self.operand(m.group(1), frame, mem)  # pointer casts keep the referent
        m = re.fullmatch(r"(\w+(?:::\w+)*)\((.*)\)", rv)
        if m and re.match(r"^[A-Z]", m.group(1).split("::")[-1]):
            args = [self.operand(x, frame, mem) for x in split_top(m.group(2), ",") if x.strip()]
            return Struct({i: a for i, a in enumerate(args)}, tag=m.group(1).split("::")[-1])
        m = re.fullmatch(r"(\w+(?:::\w+)*) \{ (.*) \}", rv)
        if m:
            fields = {}
            for i, fs in enumerate(split_top(m.group(2), ",")):
                fields[i] = self.operand(fs.split(":", 1)[1], frame, mem)
            return Struct(fields, tag=m.group(1))
        return self.operand(rv, frame, mem)

    # ---- calls ----------------------------------------------------------------------------------
    def call(self, callee, args, mem, path, depth):
        c = re.sub(r"\s+", " ", callee.strip())
        m = re.fullmatch(r"Atomic::<bool>::(\w+)", c)
        if m:
            # a flag: the cell holds 0 / 1; operands and results are converted at the boundary
            op = m.group(1)
            cell = self.load(args[0], mem) if isinstance(args[0], Ref) else None
            if not isinstance(cell, AtomicCell):
                raise Unsupported("atomic op on a non-shared flag")
            ordering = args[-1].k if isinstance(args[-1], Konst) else "?"
            def tobv(x):
                if not isinstance(x, BoolV):
                    raise Unsupported("non-boolean operand of a flag operation")
                return "(_ bv1 64)" if x.t == "true" else ("(_ bv0 64)" if x.t == "false" else f"(ite {x.t} (_ bv1 64) (_ bv0 64))")
            if op == "load":
                res = self.fresh("r")
                path.events.append(Event("atomic", cell.name, "load", None, res, ordering))
                yield mem, path, BoolV(f"(= {res} (_ bv1 64))")
            elif op == "store":
                path.events.append(Event("atomic", cell.name, "store", tobv(args[1]), None, ordering))
                yield mem, path, Konst("unit")
            elif op == "swap":
                res = self.fresh("r")
                path.events.append(Event("atomic", cell.name, "swap", tobv(args[1]), res, ordering))
                yield mem, path, BoolV(f"(= {res} (_ bv1 64))")
            else:
                raise Unsupported("flag op " + op)
            return
        m = re.fullmatch(r"Atomic::<usize>::(\w+)", c)
        if m:
            op = m.group(1)
            cell = self.load(args[0], mem) if isinstance(args[0], Ref) else None
            if not isinstance(cell, AtomicCell):
                raise Unsupported("atomic op on a non-shared cell")
            ordering = args[-1].k if isinstance(args[-1], Konst) else "?"
            if op == "load":
                res = self.fresh("r")
                path.events.append(Event("atomic", cell.name, "load", None, res, ordering))
                yield mem, path, BV(res)
            elif op == "store":
                path.events.append(Event("atomic", cell.name, "store", args[1].t, None, ordering))
                yield mem, path, Konst("unit")
            elif op in ("compare_exchange", "compare_exchange_weak"):
                # (weak: spurious failure is not modelled; the strong semantics is one of its behaviours)
                res = self.fresh("r")
                exp, new = args[1].t, args[2].t
                ordering = args[3].k if isinstance(args[3], Konst) else "?"
                path.events.append(Event("atomic", cell.name, "cas", exp + "\x00" + new, res, ordering))
                yield mem, path, ResultV(f"(= {res} {exp})", BV(res))
            elif op in ("swap", "fetch_add", "fetch_sub", "fetch_max", "fetch_min", "fetch_or", "fetch_and"):
                res = self.fresh("r")
                path.events.append(Event("atomic", cell.name, op, args[1].t, res, ordering))
                yield mem, path, BV(res)
            else:
                raise Unsupported("atomic op " + op)
            return
        m = re.fullmatch(r"<ReloadId as PartialOrd>::(gt|lt|ge|le)", c)
        if m:
            a = self.load(self.load_ref(args[0]), mem)
            b = self.load(self.load_ref(args[1]), mem)
            op = {"gt": "bvugt", "lt": "bvult", "ge": "bvuge", "le": "bvule"}[m.group(1)]
            yield mem, path, BoolV(f"({op} {a.fields[0].t} {b.fields[0].t})")
            return
        m = re.fullmatch(r"<ReloadId as PartialEq>::(eq|ne)", c)
        if m:
            a = self.load(self.load_ref(args[0]), mem)
            b = self.load(self.load_ref(args[1]), mem)
            yield mem, path, BoolV(f"({'=' if m.group(1) == 'eq' else 'distinct'} {a.fields[0].t} {b.fields[0].t})")
            return
        m = re.fullmatch(r"<ReloadId as Ord>::(max|min)", c)
        if m:
            a, b = args[0], args[1]
            if not (isinstance(a, Struct) and isinstance(b, Struct)):
                raise Unsupported("Ord::max on non-ReloadId values")
            x, y = a.fields[0].t, b.fields[0].t
            # std: max returns the second argument when equal, min the first (indistinguishable for a usize newtype)
            t = f"(ite (bvugt {x} {y}) {x} {y})" if m.group(1) == "max" else f"(ite (bvugt {x} {y}) {y} {x})"
            yield mem, path, Struct({0: BV(t)})
            return
        m = re.fullmatch(r"core::num::<impl usize>::wrapping_(add|sub)", c)
        if m:
            yield mem, path, BV(f"({'bvadd' if m.group(1) == 'add' else 'bvsub'} {args[0].t} {args[1].t})")
            return
        if re.fullmatch(r"NonNull::<[\w:]+>::as_ref::<'_>|NonNull::<[\w:]+>::as_ref", c):
            nn = self.load(self.load_ref(args[0]), mem)
            yield mem, path, self.as_ref(nn)
            return
        if re.fullmatch(r"NonNull::<[\w:]+>::as_ptr", c) or "::cast::<u8>" in c:
            yield mem, path, self.as_ref(args[0])
            return
        if c == "std::alloc::dealloc":
            r = self.as_ref(args[0])
            path.events.append(Event("free", r.base))
            yield mem, path, Konst("unit")
            return
        if c.startswith("Vec::<u8>::from_raw_parts"):
            yield mem, path, Struct({0: self.as_ref(args[0])}, tag="VecU8")
            return
        if c == "std::mem::drop::<Vec<u8>>":
            path.events.append(Event("freebuf", args[0].fields[0].base))
            yield mem, path, Konst("unit")
            return
        if c.startswith("std::slice::from_raw_parts"):
            r = self.as_ref(args[0])
            path.events.append(Event("readbuf", r.base))
            yield mem, path, Konst("slice")
            return
        if c.startswith("Layout::new::<") or c.endswith("::get_inner_layout"):
            yield mem, path, Konst("layout")
            return
        # in-crate callee listed for inlining?
        key = self.resolve(c)
        if key is not None:
            for mem2, path2, ret in self.run(key, args, mem, path, depth + 1):
                yield mem2, path2, ret
            return
        raise Unsupported("callee not understood: " + c)

    def load_ref(self, a):
        if not isinstance(a, Ref):
            raise Unsupported("expected reference")
        return a

    def as_ref(self, v):
        if isinstance(v, Ref):
            return v
        if isinstance(v, Struct) and 0 in v.fields and isinstance(v.fields[0], Ref):
            return v.fields[0]
        raise Unsupported("pointer value")

    def resolve(self, callee):
        return callee if callee in self.fns else None

    def mark_access(self, path, base):
        path.events.append(Event("access", base))


# ------------------------------------------------------------------------------------------------
# interleaving encoder
class Scenario:
    """threads: list of list-of-paths (each Path has events, conds, ret); cells: {name: initial term}."""
    def __init__(self, name):
        self.name = name
        self.decls, self.asserts, self.threads, self.cells = [], [], [], {}
        self.objects = []   # freeable objects
        self.notes = {}

    def declare(self, name, sort="(_ BitVec 64)"):
        self.decls.append(f"(declare-const {name} {sort})")
        return name


def encode(sc, prop_terms, extra_defs=()):
    """Bounded interleaving encoding. Returns SMT-LIB text with the scenario constraints; `prop_terms` is
    a list of Bool terms (the property); the caller asserts their negation."""
    T = len(sc.threads)
    maxlen = [max(len(p.events) for p in th) for th in sc.threads]
    S = sum(maxlen)
    out = ["(set-logic ALL)", "(set-option :produce-models true)"]
    out += sc.decls
    cells = list(sc.cells)
    objs = sc.objects
    declared = set()
    for t, th in enumerate(sc.threads):
        out.append(f"(declare-const sel{t} Int)")
        out.append(f"(assert (and (>= sel{t} 0) (< sel{t} {len(th)})))")
        for p, path in enumerate(th):
            for e in path.events:
                if e.res and e.res not in declared:
                    declared.add(e.res)
                    out.append(f"(declare-const {e.res} (_ BitVec 64))")
    for s in range(S + 1):
        for c in cells:
            out.append(f"(declare-const m_{c}_{s} (_ BitVec 64))")
        for o in objs:
            out.append(f"(declare-const freed_{o}_{s} Bool)")
            out.append(f"(declare-const nfree_{o}_{s} Int)")
        for t in range(T):
            out.append(f"(declare-const pc{t}_{s} Int)")
        if s < S:
            out.append(f"(declare-const who_{s} Int)")
    out.append("(declare-const uaf Bool)")
    for c in cells:
        out.append(f"(assert (= m_{c}_0 {sc.cells[c]}))")
    for o in objs:
        out.append(f"(assert (and (not freed_{o}_0) (= nfree_{o}_0 0)))")
    for t in range(T):
        out.append(f"(assert (= pc{t}_0 0))")
    uaf_terms = []
    for s in range(S):
        out.append(f"(assert (and (>= who_{s} (- 1)) (< who_{s} {T})))")
        # stutter only when everybody is done
        done = " ".join(f"(= pc{t}_{s} (plen {t}))" for t in range(T))
        out.append(f"(assert (= (= who_{s} (- 1)) (and {done})))")
        for t, th in enumerate(sc.threads):
            # frame for non-moving thread
            out.append(f"(assert (=> (not (= who_{s} {t})) (= pc{t}_{s + 1} pc{t}_{s})))")
            out.append(f"(assert (=> (= who_{s} {t}) (and (< pc{t}_{s} (plen {t})) (= pc{t}_{s + 1} (+ pc{t}_{s} 1)))))")
            for p, path in enumerate(th):
                for k, e in enumerate(path.events):
                    g = f"(and (= who_{s} {t}) (= sel{t} {p}) (= pc{t}_{s} {k}))"
                    eff = []
                    touched_cell = None
                    if e.kind == "atomic":
                        c = e.obj
                        touched_cell = c
                        cur = f"m_{c}_{s}"
                        if e.res:
                            eff.append(f"(= {e.res} {cur})")
                        if e.op == "cas":
                            exp_t, new_t = e.arg.split("\x00")
                        new = {"load": cur, "store": e.arg, "swap": e.arg,
                               "cas": f"(ite (= {cur} {exp_t}) {new_t} {cur})" if e.op == "cas" else cur,
                               "fetch_add": f"(bvadd {cur} {e.arg})" if e.arg else cur,
                               "fetch_sub": f"(bvsub {cur} {e.arg})" if e.arg else cur,
                               "fetch_max": f"(ite (bvugt {e.arg} {cur}) {e.arg} {cur})" if e.arg else cur,
                               "fetch_min": f"(ite (bvult {e.arg} {cur}) {e.arg} {cur})" if e.arg else cur,
                               "fetch_or": f"(bvor {cur} {e.arg})" if e.arg else cur,
                               "fetch_and": f"(bvand {cur} {e.arg})" if e.arg else cur}[e.op]
                        eff.append(f"(= m_{c}_{s + 1} {new})")
                        own = sc.notes.get("owner_of_cell", {}).get(c)
                        if own:
                            uaf_terms.append(f"(and {g} freed_{own}_{s})")
                    for c2 in cells:
                        if c2 != touched_cell:
                            eff.append(f"(= m_{c2}_{s + 1} m_{c2}_{s})")
                    freed_obj = None
                    if e.kind in ("free", "freebuf"):
                        freed_obj = sc.notes["obj_name"][(e.kind, e.obj)]
                        eff.append(f"freed_{freed_obj}_{s + 1}")
                        eff.append(f"(= nfree_{freed_obj}_{s + 1} (+ nfree_{freed_obj}_{s} 1))")
                    if e.kind in ("readbuf", "access"):
                        for o in sc.notes["guards"][(e.kind, e.obj)]:
                            uaf_terms.append(f"(and {g} freed_{o}_{s})")
                    for o in objs:
                        if o != freed_obj:
                            eff.append(f"(= freed_{o}_{s + 1} freed_{o}_{s})")
                            eff.append(f"(= nfree_{o}_{s + 1} nfree_{o}_{s})")
                    out.append(f"(assert (=> {g} (and {' '.join(eff)})))")
        # stutter frame
        st = [f"(= m_{c}_{s + 1} m_{c}_{s})" for c in cells] + [f"(and (= freed_{o}_{s + 1} freed_{o}_{s}) (= nfree_{o}_{s + 1} nfree_{o}_{s}))" for o in objs]
        if st:
            out.append(f"(assert (=> (= who_{s} (- 1)) (and {' '.join(st)})))")
    # path lengths and path conditions of the selected paths
    plen = "(define-fun plen ((t Int)) Int " + "".join(
        f"(ite (= t {t}) " + "".join(f"(ite (= sel{t} {p}) {len(path.events)} " for p, path in enumerate(th)) + "0" + ")" * len(th) + " "
        for t, th in enumerate(sc.threads)) + "0" + ")" * T + ")"
    # plen must be defined before use: move to the front (after sel declarations)
    idx = max(i for i, l in enumerate(out) if l.startswith("(assert (and (>= sel")) + 1
    out.insert(idx, plen)
    for t, th in enumerate(sc.threads):
        for p, path in enumerate(th):
            if path.conds:
                out.append(f"(assert (=> (= sel{t} {p}) (and {' '.join(path.conds)})))")
    for t in range(T):
        out.append(f"(assert (= pc{t}_{S} (plen {t})))")
    out.append("(assert (= uaf " + ("(or " + " ".join(uaf_terms) + ")" if uaf_terms else "false") + "))")
    out += list(extra_defs)
    out += sc.asserts
    return out, S


def solve(lines, want_model_vars=()):
    """Runs z3 and cvc5; returns (verdict, model dict, seconds, raw). verdict in sat/unsat/unknown/disagree/error."""
    text = "\n".join(lines) + "\n(check-sat)\n"
    res = {}
    t0 = time.time()
    for name, cmd in (("z3", [Z3, "-in", "-T:%d" % TLIMIT]), ("cvc5", [CVC5, "--lang", "smt2", "--tlimit=%d" % (TLIMIT * 1000)])):
        try:
            p = subprocess.run(cmd, input=text, capture_output=True, text=True, timeout=TLIMIT + 30)
            o = p.stdout + p.stderr
        except subprocess.TimeoutExpired:
            o = "unknown (timeout)"
        first = o.strip().split("\n")[0].strip() if o.strip() else "error"
        if "(error" in o or first not in ("sat", "unsat", "unknown"):
            first = "error" if "(error" in o or not first.startswith("unknown") else "unknown"
        res[name] = (first, o)
    dt = time.time() - t0
    v = set(r[0] for r in res.values())
    if "error" in v:
        return "error", {}, dt, res
    if v == {"sat"} or v == {"unsat"}:
        verdict = v.pop()
    elif "sat" in v and "unsat" in v:
        return "disagree", {}, dt, res
    else:
        return "unknown", {}, dt, res
    model = {}
    if verdict == "sat" and want_model_vars:
        text2 = text + "(get-value (" + " ".join(want_model_vars) + "))\n"
        p = subprocess.run([Z3, "-in", "-T:%d" % TLIMIT], input=text2, capture_output=True, text=True, timeout=TLIMIT + 30)
        for m in re.finditer(r"\(([^\s()]+) (#x[0-9a-fA-F]+|#b[01]+|\(- \d+\)|-?\d+|true|false|\(_ bv\d+ \d+\))\)", p.stdout):
            model[m.group(1)] = m.group(2)
    return verdict, model, dt, res
