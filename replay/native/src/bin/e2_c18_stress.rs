// Native stress replay for C18 interleaving counterexamples: K threads offer ids to one AtomicReloadId
// at the same moment; per round the final value must be the maximum and, for equal ids, exactly one
// caller may be told `true`. Exit 1 when a violation is observed.
use assets_manager::{AtomicReloadId, ReloadId};
use std::sync::{atomic::{AtomicUsize, Ordering}, Arc, Barrier};
fn rid(x: usize) -> ReloadId { unsafe { std::mem::transmute::<usize, ReloadId>(x) } }
fn raw(r: ReloadId) -> usize { unsafe { std::mem::transmute::<ReloadId, usize>(r) } }
fn main() {
    let k = 4usize;
    let rounds = 200_000usize;
    let cell = Arc::new(AtomicReloadId::new());
    let trues = Arc::new(AtomicUsize::new(0));
    let bad_max = Arc::new(AtomicUsize::new(0));
    let barrier = Arc::new(Barrier::new(k));
    let hs: Vec<_> = (0..k).map(|t| {
        let (cell, trues, barrier, bad_max) = (cell.clone(), trues.clone(), barrier.clone(), bad_max.clone());
        std::thread::spawn(move || {
            for r in 1..=rounds {
                barrier.wait();
                if r % 2 == 0 {
                    // every thread offers the same id: one growth, exactly one `true`
                    if cell.update(rid(r * 8)) { trues.fetch_add(1, Ordering::Relaxed); }
                    barrier.wait();
                    if t == 0 && raw(cell.load()) != r * 8 { bad_max.fetch_add(1, Ordering::Relaxed); }
                } else {
                    // distinct ids offered at the same moment: the maximum must be what is stored
                    let _ = cell.update(rid(r * 8 + t + 1));
                    barrier.wait();
                    if t == 0 { trues.fetch_add(1, Ordering::Relaxed); if raw(cell.load()) != r * 8 + 4 { bad_max.fetch_add(1, Ordering::Relaxed); } }
                }
                barrier.wait();
            }
        })
    }).collect();
    for h in hs { h.join().unwrap(); }
    let t = trues.load(Ordering::Relaxed);
    println!("rounds={rounds} told_true={t} wrong_final={}", bad_max.load(Ordering::Relaxed));
    if t != rounds || bad_max.load(Ordering::Relaxed) != 0 { println!("E2-REPRODUCED"); std::process::exit(1); }
}
