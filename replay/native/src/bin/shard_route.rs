// Replay for the E2 query on shard selection: runs itself under a CPU affinity mask of <p> CPUs (so that
// `available_parallelism()` = p), stores 4000 values through the `&self` path and deletes each through the
// `&mut self` path. Every remove must find its entry.
use assets_manager::{source::Empty, AssetCache};
use std::process::Command;

#[derive(Debug, PartialEq)]
struct X(usize);
impl assets_manager::asset::Storable for X {}

fn child(p: usize) -> bool {
    let seen = std::thread::available_parallelism().map(|n| n.get()).unwrap_or(0);
    println!("available_parallelism={} (wanted {})", seen, p);
    if seen != p { println!("SHARD-ROUTE-CANNOT-SET-AFFINITY"); return false; }
    let r = std::panic::catch_unwind(|| {
        let mut bad = 0usize;
        for round in 0..4 {
            let mut cache = AssetCache::with_source(Empty);
            for i in 0..1000 { cache.get_or_insert::<X>(&format!("k{}-{}", round, i), X(i)); }
            for i in 0..1000 {
                let id = format!("k{}-{}", round, i);
                if !cache.contains::<X>(&id) { bad += 1; continue; }
                if !cache.remove::<X>(&id) || cache.contains::<X>(&id) { bad += 1; }
            }
        }
        bad
    });
    match r {
        Ok(0) => { println!("all 4000 entries were found by remove"); false }
        Ok(n) => { println!("{} of 4000 present entries were not found (or not deleted) by remove", n); true }
        Err(_) => { println!("shard selection panicked"); true }
    }
}

fn main() {
    let p: usize = std::env::args().nth(1).and_then(|s| s.parse().ok()).unwrap_or(1);
    if std::env::var("SHARD_ROUTE_CHILD").is_ok() {
        if child(p) { println!("SHARD-ROUTE-REPRODUCED"); std::process::exit(1); }
        return;
    }
    let me = std::env::current_exe().unwrap();
    let st = Command::new("taskset").arg("-c").arg(format!("0-{}", p.max(1) - 1)).arg(me).arg(p.to_string())
        .env("SHARD_ROUTE_CHILD", "1").status().expect("taskset");
    std::process::exit(st.code().unwrap_or(2));
}
