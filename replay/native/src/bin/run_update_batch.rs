// Replay for the E2 query on `run_update`: one batch in which one asset fails to reload and twelve others changed
// as well. Every one of the twelve must show its new value after the pass.
use assets_manager::{AssetCache, Asset, loader, source::{Source, DirEntry, FileContent, OwnedDirEntry}, hot_reloading::EventSender, BoxedError};
use std::{collections::HashMap, io, sync::{Arc, Mutex}};
#[derive(Clone, Default)]
struct Mem(Arc<Mutex<Option<EventSender>>>, Arc<Mutex<HashMap<String, String>>>);
impl Source for Mem {
    fn read(&self, id: &str, _ext: &str) -> io::Result<FileContent> {
        match self.1.lock().unwrap().get(id) { Some(c) => Ok(FileContent::Buffer(c.clone().into_bytes())), None => Err(io::ErrorKind::NotFound.into()) }
    }
    fn read_dir(&self, _id: &str, _f: &mut dyn FnMut(DirEntry)) -> io::Result<()> { Err(io::ErrorKind::NotFound.into()) }
    fn exists(&self, _e: DirEntry) -> bool { false }
    fn make_source(&self) -> Option<Box<dyn Source + Send>> { Some(Box::new(self.clone())) }
    fn configure_hot_reloading(&self, ev: EventSender) -> Result<(), BoxedError> { *self.0.lock().unwrap() = Some(ev); Ok(()) }
}
#[derive(Debug, Clone, Copy, PartialEq)] struct X(i32);
impl From<i32> for X { fn from(n: i32) -> X { X(n) } }
impl Asset for X { type Loader = loader::LoadFrom<i32, loader::ParseLoader>; const EXTENSION: &'static str = "x"; }

fn main() {
    let mut stale_total = 0;
    for round in 0..5 {
        let src = Mem::default();
        let ids: Vec<String> = (0..13).map(|i| format!("r{}a{}", round, i)).collect();
        for id in &ids { src.1.lock().unwrap().insert(id.clone(), "1".into()); }
        let cache = AssetCache::with_source(src.clone());
        let hs: Vec<_> = ids.iter().map(|id| cache.load::<X>(id).unwrap()).collect();
        // one batch: asset 6 becomes undecodable, all the others get the value 2
        for (i, id) in ids.iter().enumerate() { src.1.lock().unwrap().insert(id.clone(), if i == 6 { "broken".into() } else { "2".into() }); }
        let ev = src.0.lock().unwrap().clone().unwrap();
        ev.send_multiple(ids.iter().map(|id| OwnedDirEntry::File(id.as_str().into(), "x".into()))).unwrap();
        std::thread::sleep(std::time::Duration::from_millis(150));
        cache.hot_reload();
        let stale = hs.iter().enumerate().filter(|(i, h)| *i != 6 && *h.read() != X(2)).count();
        if *hs[6].read() != X(1) { println!("round {}: the asset whose reload failed lost its value", round); stale_total += 1; }
        println!("round {}: {} of 12 changed assets are stale after the pass", round, stale);
        stale_total += stale;
    }
    if stale_total > 0 { println!("RUN-UPDATE-REPRODUCED"); std::process::exit(1); }
    println!("every changed asset was reloaded in every round");
}
