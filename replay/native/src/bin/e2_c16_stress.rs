// Native stress replay for C16 reference-count counterexamples: clones of one buffer are dropped at the
// same moment on several threads; a counting allocator checks that every buffer is released exactly once.
use assets_manager::SharedBytes;
use std::alloc::{GlobalAlloc, Layout, System};
use std::sync::{atomic::{AtomicIsize, Ordering}, Arc, Barrier};
struct Counting;
static LIVE: AtomicIsize = AtomicIsize::new(0);
unsafe impl GlobalAlloc for Counting {
    unsafe fn alloc(&self, l: Layout) -> *mut u8 { if l.size() == 4096 + 32 || l.size() == 4096 { LIVE.fetch_add(1, Ordering::Relaxed); } System.alloc(l) }
    unsafe fn dealloc(&self, p: *mut u8, l: Layout) { if l.size() == 4096 + 32 || l.size() == 4096 { LIVE.fetch_sub(1, Ordering::Relaxed); } System.dealloc(p, l) }
}
#[global_allocator]
static A: Counting = Counting;
fn main() {
    let k = 2usize;
    let rounds = 200_000usize;
    let barrier = Arc::new(Barrier::new(k + 1));
    let slots: Arc<Vec<std::sync::Mutex<Option<SharedBytes>>>> = Arc::new((0..k).map(|_| std::sync::Mutex::new(None)).collect());
    let hs: Vec<_> = (0..k).map(|t| {
        let (barrier, slots) = (barrier.clone(), slots.clone());
        std::thread::spawn(move || for _ in 0..rounds {
            barrier.wait();
            let h = slots[t].lock().unwrap().take().unwrap();
            barrier.wait();
            let s: usize = h.iter().map(|b| *b as usize).sum();
            assert_eq!(s, 4096);
            drop(h);
        })
    }).collect();
    for r in 0..rounds {
        let b = if r % 2 == 0 { SharedBytes::from_slice(&[1u8; 4096]) } else { SharedBytes::from_vec(vec![1u8; 4096]) };
        for t in 0..k { *slots[t].lock().unwrap() = Some(b.clone()); }
        drop(b);
        barrier.wait();
        barrier.wait();
    }
    for h in hs { h.join().unwrap(); }
    let live = LIVE.load(Ordering::Relaxed);
    println!("rounds={rounds} live_buffers_at_end={live}");
    if live != 0 { println!("E2-REPRODUCED"); std::process::exit(1); }
}
