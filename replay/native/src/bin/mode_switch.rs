// Replay for the E2 queries on the reloader's mode switch (update_if_local / update_if_static / use_static_ref /
// handle_events): a change notified before enhance_hot_reloading() must be applied exactly once at the switch and
// consumed; later events reload exactly what they name; hot_reload() in static mode returns and changes nothing;
// before the switch nothing is rewritten outside hot_reload().
use assets_manager::{
    hot_reloading::EventSender,
    loader,
    source::{DirEntry, FileContent, OwnedDirEntry, Source},
    Asset, AssetCache, BoxedError, ReloadId,
};
use std::{
    collections::HashMap,
    io,
    sync::{Arc, Mutex},
    time::{Duration, Instant},
};

struct Inner {
    files: Mutex<HashMap<(String, String), Vec<u8>>>,
    reads: Mutex<HashMap<String, usize>>,
    sender: Mutex<Option<EventSender>>,
}

#[derive(Clone)]
struct Mem(Arc<Inner>);

impl Mem {
    fn new() -> Self {
        Mem(Arc::new(Inner {
            files: Mutex::new(HashMap::new()),
            reads: Mutex::new(HashMap::new()),
            sender: Mutex::new(None),
        }))
    }

    fn set(&self, id: &str, ext: &str, n: i32) {
        self.0
            .files
            .lock()
            .unwrap()
            .insert((id.to_owned(), ext.to_owned()), n.to_string().into_bytes());
    }

    fn notify(&self, id: &str, ext: &str) {
        let sender = self.0.sender.lock().unwrap();
        sender
            .as_ref()
            .expect("hot-reloading was not configured")
            .send(OwnedDirEntry::File(id.into(), ext.into()))
            .expect("hot-reloading thread is gone");
    }

    /// Number of times the entry `id` was read from the source.
    fn reads(&self, id: &str) -> usize {
        *self.0.reads.lock().unwrap().get(id).unwrap_or(&0)
    }
}

impl Source for Mem {
    fn read(&self, id: &str, ext: &str) -> io::Result<FileContent> {
        *self.0.reads.lock().unwrap().entry(id.to_owned()).or_insert(0) += 1;
        match self
            .0
            .files
            .lock()
            .unwrap()
            .get(&(id.to_owned(), ext.to_owned()))
        {
            Some(bytes) => Ok(FileContent::Buffer(bytes.clone())),
            None => Err(io::ErrorKind::NotFound.into()),
        }
    }

    fn read_dir(&self, _id: &str, _f: &mut dyn FnMut(DirEntry)) -> io::Result<()> {
        Err(io::ErrorKind::NotFound.into())
    }

    fn exists(&self, entry: DirEntry) -> bool {
        match entry {
            DirEntry::File(id, ext) => self
                .0
                .files
                .lock()
                .unwrap()
                .contains_key(&(id.to_owned(), ext.to_owned())),
            DirEntry::Directory(_) => false,
        }
    }

    fn make_source(&self) -> Option<Box<dyn Source + Send>> {
        Some(Box::new(self.clone()))
    }

    fn configure_hot_reloading(&self, events: EventSender) -> Result<(), BoxedError> {
        *self.0.sender.lock().unwrap() = Some(events);
        Ok(())
    }
}

#[derive(Debug, Clone, Copy, PartialEq, Eq)]
struct Num(i32);

impl From<i32> for Num {
    fn from(n: i32) -> Num {
        Num(n)
    }
}

impl Asset for Num {
    type Loader = loader::LoadFrom<i32, loader::ParseLoader>;
    const EXTENSION: &'static str = "x";
}

/// Waits (with a timeout) until `done()` holds.
fn wait_until(what: &str, mut done: impl FnMut() -> bool) {
    let start = Instant::now();
    while !done() {
        assert!(
            start.elapsed() < Duration::from_secs(10),
            "timeout while waiting for: {what}"
        );
        std::thread::sleep(Duration::from_millis(1));
    }
}


static SUM_LOADS: std::sync::atomic::AtomicUsize = std::sync::atomic::AtomicUsize::new(0);
struct Sum(i32);
impl assets_manager::Compound for Sum {
    fn load(cache: assets_manager::AnyCache, _id: &assets_manager::SharedString) -> Result<Self, BoxedError> {
        SUM_LOADS.fetch_add(1, std::sync::atomic::Ordering::SeqCst);
        let p = cache.load::<Num>("p")?.read().0;
        let q = cache.load::<Num>("q")?.read().0;
        Ok(Sum(p + q))
    }
}

fn wait_for(mut done: impl FnMut() -> bool) -> bool {
    let start = Instant::now();
    while !done() {
        if start.elapsed() > Duration::from_secs(3) { return false; }
        std::thread::sleep(Duration::from_millis(2));
    }
    true
}

fn main() {
    std::thread::spawn(|| { std::thread::sleep(Duration::from_secs(50)); println!("watchdog: a call did not return"); println!("MODE-SWITCH-REPRODUCED"); std::process::exit(1); });
    let mut bad: Vec<String> = Vec::new();
    let mem = Mem::new();
    mem.set("a", "x", 1);
    mem.set("b", "x", 10);
    mem.set("c", "x", 100);
    let cache: &'static AssetCache<Mem> = Box::leak(Box::new(AssetCache::with_source(mem.clone())));
    let a = cache.load::<Num>("a").unwrap();
    let b = cache.load::<Num>("b").unwrap();
    let c = cache.load::<Num>("c").unwrap();

    // Local mode: an event alone rewrites nothing (handle_events -> update_if_static must idle) ...
    mem.set("c", "x", 101);
    mem.notify("c", "x");
    std::thread::sleep(Duration::from_millis(300));
    if c.read().0 != 100 || c.last_reload_id() != ReloadId::NEVER { bad.push("local mode: `c` was rewritten outside hot_reload()".into()); }
    // ... and hot_reload() applies it once (update_if_local must run one full pass)
    cache.hot_reload();
    if c.read().0 != 101 { bad.push("local mode: hot_reload() did not apply the notified change of `c`".into()); }
    if mem.reads("c") != 2 { bad.push(format!("local mode: `c.x` read {} times (load + one reload expected)", mem.reads("c"))); }
    cache.hot_reload();
    if mem.reads("c") != 2 { bad.push("local mode: a second hot_reload() re-read `c.x` without a notification".into()); }

    // a change is pending at the switch
    mem.set("a", "x", 2);
    mem.notify("a", "x");
    std::thread::sleep(Duration::from_millis(300));
    if a.read().0 != 1 { bad.push("local mode: `a` was rewritten outside hot_reload()".into()); }
    cache.enhance_hot_reloading();
    if !wait_for(|| a.read().0 == 2) { bad.push("switch: the change pending at enhance_hot_reloading() was not applied".into()); }
    let id_a = a.last_reload_id();
    if mem.reads("a") != 2 { bad.push(format!("switch: `a.x` read {} times (load + one reload expected)", mem.reads("a"))); }

    // static mode: events are applied on arrival, and only what they name
    mem.notify("does.not.exist", "x");
    for n in [11, 12] {
        mem.set("b", "x", n);
        mem.notify("b", "x");
        if !wait_for(|| b.read().0 == n) { bad.push(format!("static mode: the notified change of `b` to {} was not applied", n)); }
    }
    std::thread::sleep(Duration::from_millis(200));
    if mem.reads("b") != 3 { bad.push(format!("static mode: `b.x` read {} times (load + two reloads expected)", mem.reads("b"))); }
    if mem.reads("a") != 2 || a.last_reload_id() != id_a { bad.push("static mode: `a` was reloaded again although `a.x` was notified once and already applied".into()); }
    if mem.reads("c") != 2 { bad.push("static mode: `c` was reloaded again without a notification".into()); }

    // static mode: one batch naming two entries of one asset = one pass: the asset is rebuilt once, from the whole batch
    mem.set("p", "x", 1);
    mem.set("q", "x", 10);
    let sum = cache.load::<Sum>("sum").unwrap();
    let loads0 = SUM_LOADS.load(std::sync::atomic::Ordering::SeqCst);
    mem.set("p", "x", 2);
    mem.set("q", "x", 20);
    mem.0.sender.lock().unwrap().as_ref().unwrap()
        .send_multiple([OwnedDirEntry::File("p".into(), "x".into()), OwnedDirEntry::File("q".into(), "x".into())]).unwrap();
    if !wait_for(|| sum.read().0 == 22) { bad.push("static mode: a batch of two notified entries was not applied".into()); }
    std::thread::sleep(Duration::from_millis(200));
    let loads = SUM_LOADS.load(std::sync::atomic::Ordering::SeqCst) - loads0;
    if loads != 1 { bad.push(format!("static mode: one batch naming two entries of `sum` rebuilt it {} times (one pass per batch expected)", loads)); }

    // static mode: hot_reload() returns and changes nothing (update_if_local must idle, the request is answered)
    let (ra, rb, rc) = (mem.reads("a"), mem.reads("b"), mem.reads("c"));
    cache.hot_reload();
    cache.hot_reload();
    if (mem.reads("a"), mem.reads("b"), mem.reads("c")) != (ra, rb, rc) { bad.push("static mode: hot_reload() re-read the source".into()); }

    for l in &bad { println!("{}", l); }
    if !bad.is_empty() { println!("MODE-SWITCH-REPRODUCED"); std::process::exit(1); }
    println!("mode switch behaved: pending change applied once at the switch, later events precise, hot_reload() idle in static mode");
}
