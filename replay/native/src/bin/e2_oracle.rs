// Native oracle for the E2 translator validation: runs the real AtomicReloadId / ReloadId functions on
// concrete vectors and prints their results. usage: e2_oracle <op> <init> <v>   (decimal u64)
use assets_manager::{AtomicReloadId, ReloadId};
fn rid(x: usize) -> ReloadId { unsafe { std::mem::transmute::<usize, ReloadId>(x) } }
fn raw(r: ReloadId) -> usize { unsafe { std::mem::transmute::<ReloadId, usize>(r) } }
fn main() {
    let a: Vec<String> = std::env::args().collect();
    let mut i = 1;
    while i + 2 < a.len() + 0 && i + 2 <= a.len() - 1 + 0 || i + 2 < a.len() {
        let (op, init, v) = (a[i].as_str(), a[i + 1].parse::<usize>().unwrap(), a[i + 2].parse::<usize>().unwrap());
        let at = AtomicReloadId::with_value(rid(init));
        let (ret, fin): (String, usize) = match op {
            "update" => { let r = at.update(rid(v)); (r.to_string(), raw(at.load())) }
            "fetch_max" => { let r = at.fetch_max(rid(v)); (raw(r).to_string(), raw(at.load())) }
            "swap" => { let r = at.swap(rid(v)); (raw(r).to_string(), raw(at.load())) }
            "store" => { at.store(rid(v)); ("unit".into(), raw(at.load())) }
            "load" => { let r = at.load(); (raw(r).to_string(), raw(at.load())) }
            "plain_update" => { let mut x = rid(init); let r = x.update(rid(v)); (r.to_string(), raw(x)) }
            _ => panic!("unknown op"),
        };
        println!("{op} {init} {v} -> {ret} {fin}");
        i += 3;
    }
}
