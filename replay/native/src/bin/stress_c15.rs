use assets_manager::{AssetCache, source::{Source, DirEntry, FileContent, FileSystem}, hot_reloading::EventSender, BoxedError};
use std::{io, sync::{Arc, Mutex}, time::Duration};

#[derive(Clone, Default)]
struct Mem(Arc<Mutex<Option<EventSender>>>);
impl Source for Mem {
    fn read(&self, _id: &str, _ext: &str) -> io::Result<FileContent> { Err(io::ErrorKind::NotFound.into()) }
    fn read_dir(&self, _id: &str, _f: &mut dyn FnMut(DirEntry)) -> io::Result<()> { Err(io::ErrorKind::NotFound.into()) }
    fn exists(&self, _e: DirEntry) -> bool { false }
    fn make_source(&self) -> Option<Box<dyn Source + Send>> { Some(Box::new(self.clone())) }
    fn configure_hot_reloading(&self, ev: EventSender) -> Result<(), BoxedError> { *self.0.lock().unwrap() = Some(ev); Ok(()) }
}
fn threads() -> Vec<(String, u64)> {
    let mut v = vec![];
    for e in std::fs::read_dir("/proc/self/task").unwrap().flatten() {
        let comm = std::fs::read_to_string(e.path().join("comm")).unwrap_or_default().trim().to_string();
        let stat = std::fs::read_to_string(e.path().join("stat")).unwrap_or_default();
        let after = stat.rsplit(')').next().unwrap_or("");
        let f: Vec<&str> = after.split_whitespace().collect();
        let cpu = f.get(11).and_then(|s| s.parse::<u64>().ok()).unwrap_or(0) + f.get(12).and_then(|s| s.parse::<u64>().ok()).unwrap_or(0);
        v.push((comm, cpu));
    }
    v
}
fn report(tag: &str) { println!("{tag}: {:?}", threads().into_iter().filter(|t| t.0.contains("assets_hot") || t.0.contains("notify")).collect::<Vec<_>>()); }
fn main() {
    let which = std::env::args().nth(1).unwrap_or("mem".into());
    if which == "mem" {
        let src = Mem::default();
        let cache = AssetCache::with_source(src.clone());
        cache.hot_reload();
        std::thread::sleep(Duration::from_millis(500)); report("alive idle 0.5s");
        drop(cache);
        std::thread::sleep(Duration::from_millis(1000)); report("1s after drop (sender kept by source clone)");
        std::thread::sleep(Duration::from_millis(1000)); report("2s after drop");
        drop(src);
        std::thread::sleep(Duration::from_millis(500)); report("after dropping last sender");
    } else {
        let cache = AssetCache::with_source(FileSystem::new("assets").unwrap());
        cache.hot_reload();
        std::thread::sleep(Duration::from_millis(500)); report("fs alive idle 0.5s");
        drop(cache);
        std::thread::sleep(Duration::from_millis(1000)); report("fs 1s after drop");
        std::thread::sleep(Duration::from_millis(1000)); report("fs 2s after drop");
    }
}
