// Native stress for the E2 query on `reloaded_global`: one reload at a time, several threads polling the flag.
// The number of `true` answers may never exceed the number of reloads.
use assets_manager::{AssetCache, Asset, loader, source::{Source, DirEntry, FileContent, OwnedDirEntry}, hot_reloading::EventSender, BoxedError};
use std::{io, sync::{Arc, Mutex, atomic::{AtomicBool, AtomicUsize, Ordering}}};
#[derive(Clone, Default)]
struct Mem(Arc<Mutex<Option<EventSender>>>, Arc<Mutex<i32>>);
impl Source for Mem {
    fn read(&self, _id: &str, _ext: &str) -> io::Result<FileContent> { Ok(FileContent::Buffer(self.1.lock().unwrap().to_string().into_bytes())) }
    fn read_dir(&self, _id: &str, _f: &mut dyn FnMut(DirEntry)) -> io::Result<()> { Err(io::ErrorKind::NotFound.into()) }
    fn exists(&self, _e: DirEntry) -> bool { false }
    fn make_source(&self) -> Option<Box<dyn Source + Send>> { Some(Box::new(self.clone())) }
    fn configure_hot_reloading(&self, ev: EventSender) -> Result<(), BoxedError> { *self.0.lock().unwrap() = Some(ev); Ok(()) }
}
#[derive(Debug, Clone, Copy, PartialEq)] struct X(i32);
impl From<i32> for X { fn from(n: i32) -> X { X(n) } }
impl Asset for X { type Loader = loader::LoadFrom<i32, loader::ParseLoader>; const EXTENSION: &'static str = "x"; }

fn main() {
    let src = Mem::default(); *src.1.lock().unwrap() = 0;
    let cache: &'static AssetCache<Mem> = Box::leak(Box::new(AssetCache::with_source(src.clone())));
    let h = cache.load::<X>("k").unwrap();
    let stop = Arc::new(AtomicBool::new(false));
    let trues = Arc::new(AtomicUsize::new(0));
    let mut ts = Vec::new();
    for _ in 0..6 {
        let (stop, trues) = (stop.clone(), trues.clone());
        ts.push(std::thread::spawn(move || { while !stop.load(Ordering::Relaxed) { if h.reloaded_global() { trues.fetch_add(1, Ordering::Relaxed); } } }));
    }
    let ev = src.0.lock().unwrap().clone().unwrap();
    let t0 = std::time::Instant::now();
    let mut reloads = 0usize;
    for round in 1..=1500 {
        if t0.elapsed().as_secs() > 40 { break; }
        *src.1.lock().unwrap() = round;
        ev.send(OwnedDirEntry::File("k".into(), "x".into())).unwrap();
        let id = h.last_reload_id();
        let t1 = std::time::Instant::now();
        while h.last_reload_id() == id && t1.elapsed().as_millis() < 500 { cache.hot_reload(); std::thread::yield_now(); }
        if h.last_reload_id() != id { reloads += 1; }
    }
    std::thread::sleep(std::time::Duration::from_millis(50));
    stop.store(true, Ordering::Relaxed);
    for t in ts { t.join().unwrap(); }
    let n = trues.load(Ordering::Relaxed);
    println!("reloads={} true answers of reloaded_global={}", reloads, n);
    if n > reloads { println!("E2-REPRODUCED"); std::process::exit(1); }
}
