use assets_manager::{AssetCache, source::{Source, DirEntry, FileContent}, hot_reloading::EventSender, BoxedError};
use std::{io, sync::{Arc, Mutex, atomic::{AtomicUsize, Ordering}}, time::{Duration, Instant}};

#[derive(Clone, Default)]
struct Mem(Arc<Mutex<Option<EventSender>>>);
impl Source for Mem {
    fn read(&self, _id: &str, _ext: &str) -> io::Result<FileContent> { Err(io::ErrorKind::NotFound.into()) }
    fn read_dir(&self, _id: &str, _f: &mut dyn FnMut(DirEntry)) -> io::Result<()> { Err(io::ErrorKind::NotFound.into()) }
    fn exists(&self, _e: DirEntry) -> bool { false }
    fn make_source(&self) -> Option<Box<dyn Source + Send>> { Some(Box::new(self.clone())) }
    fn configure_hot_reloading(&self, ev: EventSender) -> Result<(), BoxedError> { *self.0.lock().unwrap() = Some(ev); Ok(()) }
}

fn main() {
    let n: usize = std::env::args().nth(1).and_then(|s| s.parse().ok()).unwrap_or(2);
    let cache: &'static AssetCache<Mem> = Box::leak(Box::new(AssetCache::with_source(Mem::default())));
    let progress: &'static Vec<AtomicUsize> = Box::leak(Box::new((0..n).map(|_| AtomicUsize::new(0)).collect()));
    for i in 0..n {
        std::thread::spawn(move || loop { cache.hot_reload(); progress[i].fetch_add(1, Ordering::Relaxed); });
    }
    let start = Instant::now();
    let mut last: Vec<usize> = vec![0; n];
    let mut stalled = 0;
    while start.elapsed() < Duration::from_secs(20) {
        std::thread::sleep(Duration::from_millis(500));
        let cur: Vec<usize> = progress.iter().map(|p| p.load(Ordering::Relaxed)).collect();
        if cur == last { stalled += 1; } else { stalled = 0; }
        println!("{:?} stalled={}", cur, stalled);
        if stalled >= 4 { println!("DEADLOCK: no progress for 2s at {:?}", cur); std::process::exit(3); }
        last = cur;
    }
    println!("no deadlock seen");
}
