use assets_manager::{AssetCache, Asset, loader, source::{Source, DirEntry, FileContent, OwnedDirEntry}, hot_reloading::EventSender, BoxedError};
use std::{io, sync::{Arc, Mutex}};
#[derive(Clone, Default)]
struct Mem(Arc<Mutex<Option<EventSender>>>, Arc<Mutex<i32>>);
impl Source for Mem {
    fn read(&self, _id: &str, _ext: &str) -> io::Result<FileContent> { Ok(FileContent::Buffer(self.1.lock().unwrap().to_string().into_bytes())) }
    fn read_dir(&self, _id: &str, _f: &mut dyn FnMut(DirEntry)) -> io::Result<()> { Err(io::ErrorKind::NotFound.into()) }
    fn exists(&self, _e: DirEntry) -> bool { false }
    fn make_source(&self) -> Option<Box<dyn Source + Send>> { Some(Box::new(self.clone())) }
    fn configure_hot_reloading(&self, ev: EventSender) -> Result<(), BoxedError> { *self.0.lock().unwrap() = Some(ev); Ok(()) }
}
#[derive(Debug, Clone, Copy, PartialEq)] struct X(i32);
impl From<i32> for X { fn from(n: i32) -> X { X(n) } }
impl Asset for X { type Loader = loader::LoadFrom<i32, loader::ParseLoader>; const EXTENSION: &'static str = "x"; }
fn main() {
    let src = Mem::default(); *src.1.lock().unwrap() = 1;
    let ev = |s: &Mem| s.0.lock().unwrap().clone().unwrap();
    // history 1: load_owned then get_or_insert
    let cache = AssetCache::with_source(src.clone());
    let _ = cache.load_owned::<X>("k").unwrap();
    let h = cache.get_or_insert::<X>("k", X(100));
    *src.1.lock().unwrap() = 2;
    ev(&src).send(OwnedDirEntry::File("k".into(), "x".into())).unwrap();
    std::thread::sleep(std::time::Duration::from_millis(100));
    cache.hot_reload();
    println!("history load_owned;get_or_insert(100);edit;hot_reload -> value={:?} reload_id={:?}", *h.read(), h.last_reload_id());
    // history 2: load, remove, get_or_insert
    let src = Mem::default(); *src.1.lock().unwrap() = 1;
    let mut cache = AssetCache::with_source(src.clone());
    cache.load::<X>("k").unwrap();
    cache.remove::<X>("k");
    let h = cache.get_or_insert::<X>("k", X(100));
    *src.1.lock().unwrap() = 2;
    ev(&src).send(OwnedDirEntry::File("k".into(), "x".into())).unwrap();
    std::thread::sleep(std::time::Duration::from_millis(100));
    cache.hot_reload();
    println!("history load;remove;get_or_insert(100);edit;hot_reload -> value={:?} reload_id={:?}", *h.read(), h.last_reload_id());
    // history 3: load, clear, get_or_insert
    let src = Mem::default(); *src.1.lock().unwrap() = 1;
    let mut cache = AssetCache::with_source(src.clone());
    cache.load::<X>("k").unwrap();
    cache.clear();
    let h = cache.get_or_insert::<X>("k", X(100));
    *src.1.lock().unwrap() = 2;
    ev(&src).send(OwnedDirEntry::File("k".into(), "x".into())).unwrap();
    std::thread::sleep(std::time::Duration::from_millis(100));
    cache.hot_reload();
    println!("history load;clear;get_or_insert(100);edit;hot_reload -> value={:?} reload_id={:?}", *h.read(), h.last_reload_id());
}
