// Replay for the E2 queries on the reloader thread's message loop (`hot_reloading_thread`), through the public API:
//  (a) static mode: hot_reload() after enhance_hot_reloading() is answered          (P1)
//  (b) local mode: 4 threads x 50 hot_reload() calls are all answered              (P1)
//  (c) cache dropped while the source keeps its EventSender: the reloader thread is gone or asleep   (P3)
//  (d) EventSender dropped while the cache is alive: no spinning, hot_reload() still returns         (P3)
//  (e) one event, then nothing: the reloader thread sleeps                                           (P4)
//  (g) hot_reload() returns only after the reloads it triggered are finished (slow source)               (P1, order)
//  (f) cache dropped under a sustained stream of events: the thread still notices and goes away      (P5)
use assets_manager::{AssetCache, Asset, loader, source::{Source, DirEntry, FileContent, OwnedDirEntry}, hot_reloading::EventSender, BoxedError};
use std::{io, sync::{Arc, Mutex, mpsc}, time::Duration};

#[derive(Clone, Default)]
struct Mem { keep: bool, ev: Arc<Mutex<Option<EventSender>>>, slow: Arc<Mutex<Option<String>>> }
impl Source for Mem {
    fn read(&self, id: &str, _ext: &str) -> io::Result<FileContent> {
        if id == "a" { if let Some(v) = self.slow.lock().unwrap().clone() { std::thread::sleep(Duration::from_millis(150)); return Ok(FileContent::Buffer(v.into_bytes())); } }
        if id == "a" { Ok(FileContent::Buffer(b"1".to_vec())) } else { Err(io::ErrorKind::NotFound.into()) } }
    fn read_dir(&self, _id: &str, _f: &mut dyn FnMut(DirEntry)) -> io::Result<()> { Err(io::ErrorKind::NotFound.into()) }
    fn exists(&self, _e: DirEntry) -> bool { false }
    fn make_source(&self) -> Option<Box<dyn Source + Send>> { Some(Box::new(self.clone())) }
    fn configure_hot_reloading(&self, ev: EventSender) -> Result<(), BoxedError> { if self.keep { *self.ev.lock().unwrap() = Some(ev); } Ok(()) }
}
#[derive(Debug, Clone, Copy, PartialEq)] struct X(i32);
impl From<i32> for X { fn from(n: i32) -> X { X(n) } }
impl Asset for X { type Loader = loader::LoadFrom<i32, loader::ParseLoader>; const EXTENSION: &'static str = "x"; }

// CPU ticks of the reloader threads of this process ("assets_hot..." by name), summed
fn reloader_ticks() -> (usize, u64) {
    let (mut n, mut t) = (0, 0);
    for e in std::fs::read_dir("/proc/self/task").unwrap().flatten() {
        let comm = std::fs::read_to_string(e.path().join("comm")).unwrap_or_default();
        if !comm.contains("assets_hot") { continue; }
        let stat = std::fs::read_to_string(e.path().join("stat")).unwrap_or_default();
        let f: Vec<&str> = stat.rsplit(')').next().unwrap_or("").split_whitespace().collect();
        n += 1;
        t += f.get(11).and_then(|s| s.parse::<u64>().ok()).unwrap_or(0) + f.get(12).and_then(|s| s.parse::<u64>().ok()).unwrap_or(0);
    }
    (n, t)
}
fn busy(ms: u64) -> u64 { let (_, t0) = reloader_ticks(); std::thread::sleep(Duration::from_millis(ms)); let (_, t1) = reloader_ticks(); t1.saturating_sub(t0) }
fn returns(secs: u64, f: impl FnOnce() + Send + 'static) -> bool {
    let (tx, rx) = mpsc::channel();
    std::thread::spawn(move || { f(); let _ = tx.send(()); });
    rx.recv_timeout(Duration::from_secs(secs)).is_ok()
}

fn main() {
    let mut bad: Vec<String> = Vec::new();
    // (c) first, while no other reloader thread exists in the process
    {
        let src = Mem { keep: true, ..Default::default() };
        let cache = AssetCache::with_source(src.clone());
        let _ = cache.load::<X>("a");
        cache.hot_reload();
        drop(cache);
        std::thread::sleep(Duration::from_millis(300));
        let (n, _) = reloader_ticks();
        let b = busy(600);
        if n > 0 && b > 3 { bad.push(format!("(c) cache dropped: {} reloader thread(s) still burning CPU ({} ticks in 0.6 s)", n, b)); }
        drop(src);
        std::thread::sleep(Duration::from_millis(200));
    }
    // (d)
    {
        let src = Mem { keep: false, ..Default::default() };
        let cache = Arc::new(AssetCache::with_source(src));
        let _ = cache.load::<X>("a");
        std::thread::sleep(Duration::from_millis(200));
        let b = busy(600);
        if b > 3 { bad.push(format!("(d) event sender dropped: the reloader thread spins ({} ticks in 0.6 s)", b)); }
        let c2 = cache.clone();
        if !returns(5, move || { c2.hot_reload(); c2.hot_reload(); }) { bad.push("(d) event sender dropped: hot_reload() does not return".into()); }
        std::mem::forget(cache);
    }
    // (e)
    {
        let src = Mem { keep: true, ..Default::default() };
        let cache = AssetCache::with_source(src.clone());
        let _ = cache.load::<X>("a");
        let (_, t0) = reloader_ticks();
        src.ev.lock().unwrap().as_ref().unwrap().send(OwnedDirEntry::File("a".into(), "x".into())).unwrap();
        std::thread::sleep(Duration::from_millis(200));
        let (_, t1) = reloader_ticks();
        std::thread::sleep(Duration::from_millis(600));
        let (_, t2) = reloader_ticks();
        let _ = t0;
        if t2.saturating_sub(t1) > 3 { bad.push(format!("(e) one event, then idle: the reloader thread spins ({} ticks in 0.6 s)", t2 - t1)); }
        std::mem::forget(cache);
    }
    // (f)
    {
        let src = Mem { keep: true, ..Default::default() };
        let cache = AssetCache::with_source(src.clone());
        let _ = cache.load::<X>("a");
        let ev = src.ev.lock().unwrap().clone().unwrap();
        let feeders: Vec<_> = (0..3).map(|_| { let ev = ev.clone(); std::thread::spawn(move || {
            let t0 = std::time::Instant::now();
            while t0.elapsed() < Duration::from_millis(2500) {
                if ev.send(OwnedDirEntry::File("nobody".into(), "x".into())).is_err() { return true; }
            }
            false
        }) }).collect();
        std::thread::sleep(Duration::from_millis(300));
        drop(cache);
        let noticed = feeders.into_iter().map(|h| h.join().unwrap()).fold(true, |a, b| a && b);
        if !noticed { bad.push("(f) cache dropped under a sustained event stream: the reloader thread kept consuming events for 2 s and never stopped".into()); }
    }
    // (g)
    {
        let src = Mem { keep: true, ..Default::default() };
        let cache = AssetCache::with_source(src.clone());
        let a = cache.load::<X>("a").unwrap();
        *src.slow.lock().unwrap() = Some("2".into());
        src.ev.lock().unwrap().as_ref().unwrap().send(OwnedDirEntry::File("a".into(), "x".into())).unwrap();
        std::thread::sleep(Duration::from_millis(200));
        cache.hot_reload();
        let v = *a.read();
        if v != X(2) { bad.push(format!("(g) hot_reload() returned before the reload it triggered was finished: value {:?} instead of X(2)", v)); }
        *src.slow.lock().unwrap() = None;
        std::mem::forget(cache);
    }
    // (b)
    {
        let cache = Arc::new(AssetCache::with_source(Mem { keep: true, ..Default::default() }));
        let _ = cache.load::<X>("a");
        let mut ok = true;
        let hs: Vec<_> = (0..4).map(|_| { let c = cache.clone(); let (tx, rx) = mpsc::channel(); std::thread::spawn(move || { for _ in 0..50 { c.hot_reload(); } let _ = tx.send(()); }); rx }).collect();
        for rx in hs { ok &= rx.recv_timeout(Duration::from_secs(10)).is_ok(); }
        if !ok { bad.push("(b) local mode: a hot_reload() caller was never answered".into()); }
        std::mem::forget(cache);
    }
    // (a)
    {
        let cache: &'static AssetCache<Mem> = Box::leak(Box::new(AssetCache::with_source(Mem { keep: true, ..Default::default() })));
        let _ = cache.load::<X>("a");
        cache.hot_reload();
        cache.enhance_hot_reloading();
        std::thread::sleep(Duration::from_millis(200));
        if !returns(5, move || { cache.hot_reload(); cache.hot_reload(); }) { bad.push("(a) static mode: a hot_reload() caller was never answered after enhance_hot_reloading()".into()); }
    }
    for l in &bad { println!("{}", l); }
    if !bad.is_empty() { println!("THREAD-LOOP-REPRODUCED"); std::process::exit(1); }
    println!("reloader loop behaved: requests answered in both modes, thread gone or asleep after disconnects, asleep when idle");
}
