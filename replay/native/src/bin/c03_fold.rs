// Replay / oracle for the E2 query on `load_from_source`: each argument is an outcome word, one letter per
// declared extension: o = readable and decodable, c = readable but undecodable, n = not found, p = other io error
// ("-" = a type without extensions). Loads a type with that many extensions through the public API and compares
// with the documented outcome: the first usable extension wins, otherwise undecodable > io error > not found.
use assets_manager::{loader::Loader, source::{DirEntry, FileContent, Source}, Asset, AssetCache, BoxedError};
use std::{borrow::Cow, io};

struct Src(Vec<u8>);
impl Source for Src {
    fn read(&self, _id: &str, ext: &str) -> io::Result<FileContent<'_>> {
        let i: usize = if ext.is_empty() { 0 } else { ext[1..].parse().unwrap() };
        match self.0.get(i) {
            Some(b'o') => Ok(FileContent::Buffer(vec![b'0' + i as u8])),
            Some(b'c') => Ok(FileContent::Buffer(b"bad".to_vec())),
            Some(b'p') => Err(io::ErrorKind::PermissionDenied.into()),
            _ => Err(io::ErrorKind::NotFound.into()),
        }
    }
    fn read_dir(&self, _id: &str, _f: &mut dyn FnMut(DirEntry)) -> io::Result<()> { Err(io::ErrorKind::NotFound.into()) }
    fn exists(&self, _e: DirEntry) -> bool { false }
}

#[derive(Debug)]
struct Undecodable;
impl std::fmt::Display for Undecodable { fn fmt(&self, f: &mut std::fmt::Formatter<'_>) -> std::fmt::Result { f.write_str("undecodable") } }
impl std::error::Error for Undecodable {}

struct L;
macro_rules! ty {
    ($name:ident, $exts:expr) => {
        struct $name(u8);
        impl Loader<$name> for L {
            fn load(content: Cow<[u8]>, _ext: &str) -> Result<$name, BoxedError> {
                if &*content == b"bad" { Err(Box::new(Undecodable)) } else { Ok($name(content[0] - b'0')) }
            }
        }
        impl Asset for $name { const EXTENSIONS: &'static [&'static str] = $exts; type Loader = L; }
    };
    // same, but the type's default_value always succeeds (words starting with '+')
    ($name:ident, $exts:expr, dflt) => {
        struct $name(u8);
        impl Loader<$name> for L {
            fn load(content: Cow<[u8]>, _ext: &str) -> Result<$name, BoxedError> {
                if &*content == b"bad" { Err(Box::new(Undecodable)) } else { Ok($name(content[0] - b'0')) }
            }
        }
        impl Asset for $name {
            const EXTENSIONS: &'static [&'static str] = $exts; type Loader = L;
            fn default_value(_id: &assets_manager::SharedString, _e: BoxedError) -> Result<Self, BoxedError> { Ok($name(0xD0)) }
        }
    };
}
ty!(T0, &[]);
ty!(T1, &["e0"]);
ty!(T2, &["e0", "e1"]);
ty!(T3, &["e0", "e1", "e2"]);
ty!(T4, &["e0", "e1", "e2", "e3"]);
ty!(T5, &["e0", "e1", "e2", "e3", "e4"]);
// the first declared extension is the empty string (words starting with '0')
ty!(Z1, &[""]);
ty!(Z2, &["", "e1"]);
ty!(Z3, &["", "e1", "e2"]);
ty!(Z4, &["", "e1", "e2", "e3"]);
ty!(Z5, &["", "e1", "e2", "e3", "e4"]);
ty!(D0, &[], dflt);
ty!(D1, &["e0"], dflt);
ty!(D2, &["e0", "e1"], dflt);
ty!(D3, &["e0", "e1", "e2"], dflt);
ty!(D4, &["e0", "e1", "e2", "e3"], dflt);
ty!(D5, &["e0", "e1", "e2", "e3", "e4"], dflt);

fn rank(e: &assets_manager::Error) -> u8 {
    let r = e.reason();
    if let Some(io) = r.downcast_ref::<io::Error>() { return if io.kind() == io::ErrorKind::NotFound { 1 } else { 2 }; }
    if r.downcast_ref::<Undecodable>().is_some() { return 3; }
    0
}

fn run<T: Asset>(word: &[u8], get: fn(&T) -> u8) -> String {
    let cache = AssetCache::with_source(Src(word.to_vec()));
    match cache.load::<T>("a") {
        Ok(h) => format!("ok:{}", get(&h.read())),
        Err(e) => format!("err:{}", rank(&e)),
    }
}

fn main() {
    let mut bad = false;
    for w in std::env::args().skip(1) {
        let dflt = w.starts_with('+');
        let zfam = w.starts_with('0');
        let w0 = w.trim_start_matches('+').trim_start_matches('0');
        let word: &[u8] = if w0 == "-" { b"" } else { w0.as_bytes() };
        let actual = if zfam { match word.len() {
            0 | 1 => run::<Z1>(word, |v| v.0), 2 => run::<Z2>(word, |v| v.0), 3 => run::<Z3>(word, |v| v.0),
            4 => run::<Z4>(word, |v| v.0), _ => run::<Z5>(word, |v| v.0),
        } } else { match (dflt, word.len()) {
            (false, 0) => run::<T0>(word, |v| v.0), (false, 1) => run::<T1>(word, |v| v.0), (false, 2) => run::<T2>(word, |v| v.0),
            (false, 3) => run::<T3>(word, |v| v.0), (false, 4) => run::<T4>(word, |v| v.0), (false, _) => run::<T5>(word, |v| v.0),
            (true, 0) => run::<D0>(word, |v| v.0), (true, 1) => run::<D1>(word, |v| v.0), (true, 2) => run::<D2>(word, |v| v.0),
            (true, 3) => run::<D3>(word, |v| v.0), (true, 4) => run::<D4>(word, |v| v.0), (true, _) => run::<D5>(word, |v| v.0),
        } };
        let expected = match word.iter().position(|&c| c == b'o') {
            Some(i) => format!("ok:{}", i),
            None if dflt => format!("ok:{}", 0xD0),
            None => format!("err:{}", word.iter().map(|&c| match c { b'c' => 3, b'p' => 2, _ => 1 }).max().unwrap_or(0)),
        };
        println!("word={} actual={} expected={}", w, actual, expected);
        if actual != expected { bad = true; }
    }
    if bad { println!("C03-FOLD-REPRODUCED"); std::process::exit(1); }
}
