// Replay for the E2 query on `AnyCache::reload_untyped`: drives the public API through the four situations of the
// kernel (entry missing / present but not hot-reloaded / reload fails / reload succeeds) and reports any deviation.
use assets_manager::{AssetCache, Asset, loader, source::{Source, DirEntry, FileContent, OwnedDirEntry}, hot_reloading::EventSender, BoxedError};
use std::{io, sync::{Arc, Mutex}};
#[derive(Clone, Default)]
struct Mem(Arc<Mutex<Option<EventSender>>>, Arc<Mutex<String>>);
impl Source for Mem {
    fn read(&self, _id: &str, _ext: &str) -> io::Result<FileContent> { Ok(FileContent::Buffer(self.1.lock().unwrap().clone().into_bytes())) }
    fn read_dir(&self, _id: &str, _f: &mut dyn FnMut(DirEntry)) -> io::Result<()> { Err(io::ErrorKind::NotFound.into()) }
    fn exists(&self, _e: DirEntry) -> bool { false }
    fn make_source(&self) -> Option<Box<dyn Source + Send>> { Some(Box::new(self.clone())) }
    fn configure_hot_reloading(&self, ev: EventSender) -> Result<(), BoxedError> { *self.0.lock().unwrap() = Some(ev); Ok(()) }
}
#[derive(Debug, Clone, Copy, PartialEq)] struct X(i32);
impl From<i32> for X { fn from(n: i32) -> X { X(n) } }
impl Asset for X { type Loader = loader::LoadFrom<i32, loader::ParseLoader>; const EXTENSION: &'static str = "x"; }

fn edit(src: &Mem, cache: &AssetCache<Mem>, content: &str) {
    *src.1.lock().unwrap() = content.to_string();
    src.0.lock().unwrap().clone().unwrap().send(OwnedDirEntry::File("k".into(), "x".into())).unwrap();
    std::thread::sleep(std::time::Duration::from_millis(150));
    cache.hot_reload();
}

fn main() {
    let mut bad = Vec::new();
    // reload succeeds: value replaced, id advanced, watcher fires once
    let src = Mem::default(); *src.1.lock().unwrap() = "1".into();
    let cache = AssetCache::with_source(src.clone());
    let h = cache.load::<X>("k").unwrap();
    let mut w = h.reload_watcher();
    let id0 = h.last_reload_id();
    edit(&src, &cache, "2");
    if *h.read() != X(2) || h.last_reload_id() == id0 || !w.reloaded() || w.reloaded() { bad.push(format!("successful reload: value={:?} id changed={} ", *h.read(), h.last_reload_id() != id0)); }
    // reload fails: the cached value stays, nothing is reported
    let id1 = h.last_reload_id();
    edit(&src, &cache, "not a number");
    if *h.read() != X(2) || h.last_reload_id() != id1 || w.reloaded() { bad.push(format!("failed reload: value={:?} id changed={}", *h.read(), h.last_reload_id() != id1)); }
    // and a later repair is picked up
    edit(&src, &cache, "3");
    if *h.read() != X(3) || !w.reloaded() { bad.push(format!("repair after failed reload: value={:?}", *h.read())); }
    // present but not hot-reloaded (stored with get_or_insert after a remove)
    let src = Mem::default(); *src.1.lock().unwrap() = "1".into();
    let mut cache = AssetCache::with_source(src.clone());
    cache.load::<X>("k").unwrap();
    cache.remove::<X>("k");
    let h = cache.get_or_insert::<X>("k", X(100));
    let idg = h.last_reload_id();
    edit(&src, &cache, "2");
    if *h.read() != X(100) || h.last_reload_id() != idg { bad.push(format!("get_or_insert value rewritten: value={:?}", *h.read())); }
    // entry missing: nothing appears in the cache
    let src = Mem::default(); *src.1.lock().unwrap() = "1".into();
    let mut cache = AssetCache::with_source(src.clone());
    cache.load::<X>("k").unwrap();
    cache.remove::<X>("k");
    edit(&src, &cache, "2");
    if cache.contains::<X>("k") { bad.push("an entry appeared for a removed asset".to_string()); }
    for b in &bad { println!("deviation: {}", b); }
    if bad.is_empty() { println!("all four situations behave as documented"); } else { println!("RELOAD-KERNEL-REPRODUCED"); std::process::exit(1); }
}
