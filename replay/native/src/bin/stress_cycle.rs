use assets_manager::{AssetCache, AnyCache, Compound, BoxedError, SharedString, source::{Source, DirEntry, FileContent, OwnedDirEntry}, hot_reloading::EventSender};
use std::{io, sync::{Arc, Mutex}};

#[derive(Clone, Default)]
struct Mem(Arc<Mutex<Option<EventSender>>>);
impl Source for Mem {
    fn read(&self, _id: &str, _ext: &str) -> io::Result<FileContent> { Ok(FileContent::Buffer(b"1".to_vec())) }
    fn read_dir(&self, _id: &str, _f: &mut dyn FnMut(DirEntry)) -> io::Result<()> { Err(io::ErrorKind::NotFound.into()) }
    fn exists(&self, _e: DirEntry) -> bool { false }
    fn make_source(&self) -> Option<Box<dyn Source + Send>> { Some(Box::new(self.clone())) }
    fn configure_hot_reloading(&self, ev: EventSender) -> Result<(), BoxedError> { *self.0.lock().unwrap() = Some(ev); Ok(()) }
}
struct A(i32); struct B(i32);
impl Compound for A { fn load(c: AnyCache, id: &SharedString) -> Result<Self, BoxedError> {
    let f = c.load::<String>(id)?.read().len() as i32;
    Ok(A(f + c.get_cached::<B>("k").map_or(0, |h| h.read().0))) } }
impl Compound for B { fn load(c: AnyCache, _id: &SharedString) -> Result<Self, BoxedError> {
    Ok(B(1 + c.get_cached::<A>("k").map_or(0, |h| h.read().0))) } }
fn main() {
    let src = Mem::default();
    let cache = AssetCache::with_source(src.clone());
    let a = cache.load::<A>("k").unwrap(); let b = cache.load::<B>("k").unwrap();
    println!("a={} b={}", a.read().0, b.read().0);
    cache.hot_reload();
    let ev = src.0.lock().unwrap().clone().unwrap();
    ev.send(OwnedDirEntry::File("k".into(), "txt".into())).unwrap();
    std::thread::sleep(std::time::Duration::from_millis(200));
    cache.hot_reload();
    println!("survived: a={} b={}", a.read().0, b.read().0);
}
