#!/bin/bash
# usage: run.sh <bin> [args]  — builds the reproducers against /repo's current tree (copied to scratch) and runs one
set -e
HERE=$(cd "$(dirname "$0")" && pwd)
S=${VERIF_SCRATCH:-/var/tmp/verif-scratch}/native-$$
mkdir -p $S && rsync -a --exclude target --exclude .git ${VERIF_REPO:-/repo}/ $S/repo/ && rsync -a --exclude target $HERE/ $S/native/
sed -i "s#REPO_PATH#$S/repo#" $S/native/Cargo.toml
cp $S/repo/Cargo.lock $S/native/Cargo.lock 2>/dev/null || true
cd $S/native
bin=$1; shift
CARGO_NET_OFFLINE=true cargo build --offline --release --bin $bin >$S/build.log 2>&1 || { tail -20 $S/build.log; rm -rf $S; exit 2; }
set +e
(cd $S/repo && timeout 60 $S/native/target/release/$bin "$@")
rc=$?
rm -rf $S
exit $rc
