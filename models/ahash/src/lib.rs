//! Verification model of `ahash::RandomState`: a cheap, order-sensitive hasher with a settable seed.
use std::hash::{BuildHasher, Hasher};
pub static mut MODEL_SEED: u64 = 0;
#[derive(Clone, Debug)]
pub struct RandomState { seed: u64 }
impl RandomState {
    #[inline] pub fn new() -> Self { RandomState { seed: unsafe { MODEL_SEED } } }
}
impl Default for RandomState { fn default() -> Self { Self::new() } }
pub struct AHasher { h: u64 }
impl BuildHasher for RandomState {
    type Hasher = AHasher;
    #[inline] fn build_hasher(&self) -> AHasher { AHasher { h: self.seed } }
}
impl Hasher for AHasher {
    #[inline] fn finish(&self) -> u64 { self.h }
    #[inline] fn write(&mut self, bytes: &[u8]) {
        // loop-free: length, first and last byte
        let n = bytes.len();
        let (a, b) = if n == 0 { (0u8, 0u8) } else { (bytes[0], bytes[n - 1]) };
        self.h = self.h.rotate_left(7) ^ ((n as u64) << 16) ^ ((a as u64) << 8) ^ (b as u64);
    }
    #[inline] fn write_u8(&mut self, x: u8) { self.h = self.h.rotate_left(7) ^ (x as u64); }
    #[inline] fn write_u64(&mut self, x: u64) { self.h = self.h.rotate_left(7) ^ x; }
    #[inline] fn write_u128(&mut self, x: u128) { self.h = self.h.rotate_left(7) ^ (x as u64) ^ ((x >> 64) as u64); }
    #[inline] fn write_usize(&mut self, x: usize) { self.h = self.h.rotate_left(7) ^ (x as u64); }
}
