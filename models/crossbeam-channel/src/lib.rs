//! Verification model of `crossbeam-channel` (the subset `assets_manager` uses).
//!
//! An unbounded MPMC FIFO modelled as a fixed-capacity ring (`CAP` messages; exceeding it is a
//! model-bound violation reported through `MODEL_BOUND_EXCEEDED`), with sender counting
//! (disconnection), `try_recv`, and `Select::{recv, ready}`.
//!
//! Blocking: the model never blocks. `Select::ready()` with nothing ready calls the
//! harness-installed scheduler (`set_block_hook`) which may run other actors; if the hook
//! returns and still nothing is ready the hook is called again (a harness must end the path).
//!
//! Trusted: linearizable FIFO order and disconnect-on-last-sender-drop of the real crate.
use std::cell::{Cell, UnsafeCell};
use std::fmt;
use std::rc::Rc;

pub const CAP: usize = 4;

pub static mut MODEL_BOUND_EXCEEDED: bool = false;
static mut BLOCK_HOOK: Option<fn()> = None;
static mut CHOICE_HOOK: Option<fn(usize) -> usize> = None;
static mut READY_HOOK: Option<fn(usize)> = None;
/// Number of times `Select::ready` returned (ghost counter for the harness).
pub static mut READY_RETURNS: usize = 0;
/// Number of messages successfully received through any channel (ghost counter).
pub static mut RECEIVED: usize = 0;

/// Installs the scheduler called when `Select::ready` would block.
pub fn set_block_hook(f: Option<fn()>) { unsafe { BLOCK_HOOK = f } }
/// Installs a callback invoked every time `Select::ready` returns (argument: the index returned).
pub fn set_ready_hook(f: Option<fn(usize)>) { unsafe { READY_HOOK = f } }
/// Installs the chooser used when several operations are ready (`n` ready -> index `< n`).
pub fn set_choice_hook(f: Option<fn(usize) -> usize>) { unsafe { CHOICE_HOOK = f } }

struct Chan<T> {
    // boxed slots: an array of thin (niche-optimised) pointers keeps CBMC's constant propagation alive;
    // an array of tagged enums inside a heap object does not
    buf: UnsafeCell<[Option<Box<T>>; CAP]>,
    head: Cell<usize>,
    len: Cell<usize>,
    senders: Cell<usize>,
    receivers: Cell<usize>,
}

impl<T> Chan<T> {
    fn is_ready(&self) -> bool { self.len.get() > 0 || self.senders.get() == 0 }
}

pub struct Sender<T> { ch: Rc<Chan<T>> }
pub struct Receiver<T> { ch: Rc<Chan<T>> }

// The real types are Send + Sync; the model is only ever run on one (Kani) thread.
unsafe impl<T: Send> Send for Sender<T> {}
unsafe impl<T: Send> Sync for Sender<T> {}
unsafe impl<T: Send> Send for Receiver<T> {}
unsafe impl<T: Send> Sync for Receiver<T> {}

pub fn unbounded<T>() -> (Sender<T>, Receiver<T>) {
    let ch = Rc::new(Chan {
        buf: UnsafeCell::new([None, None, None, None]),
        head: Cell::new(0),
        len: Cell::new(0),
        senders: Cell::new(1),
        receivers: Cell::new(1),
    });
    (Sender { ch: ch.clone() }, Receiver { ch })
}

/// Bounded channels are modelled like unbounded ones (a full bounded queue would make `send` block; the
/// model never blocks in `send`): MODEL_BOUNDED_USED records that the code under test asked for one.
pub static mut MODEL_BOUNDED_USED: bool = false;
pub fn bounded<T>(_cap: usize) -> (Sender<T>, Receiver<T>) { unsafe { MODEL_BOUNDED_USED = true; } unbounded() }

pub struct SendError<T>(pub T);
impl<T> fmt::Debug for SendError<T> { fn fmt(&self, f: &mut fmt::Formatter<'_>) -> fmt::Result { f.write_str("SendError(..)") } }
impl<T> fmt::Display for SendError<T> { fn fmt(&self, f: &mut fmt::Formatter<'_>) -> fmt::Result { f.write_str("sending on a disconnected channel") } }
impl<T> std::error::Error for SendError<T> {}

#[derive(Debug, Clone, Copy, PartialEq, Eq)]
pub enum TryRecvError { Empty, Disconnected }
impl fmt::Display for TryRecvError { fn fmt(&self, f: &mut fmt::Formatter<'_>) -> fmt::Result { f.write_str("TryRecvError") } }
impl std::error::Error for TryRecvError {}

#[derive(Debug, Clone, Copy, PartialEq, Eq)]
pub struct RecvError;
impl fmt::Display for RecvError { fn fmt(&self, f: &mut fmt::Formatter<'_>) -> fmt::Result { f.write_str("RecvError") } }
impl std::error::Error for RecvError {}

impl<T> Sender<T> {
    pub fn send(&self, msg: T) -> Result<(), SendError<T>> {
        let ch = &*self.ch;
        if ch.receivers.get() == 0 { return Err(SendError(msg)); }
        let len = ch.len.get();
        if len >= CAP {
            unsafe { MODEL_BOUND_EXCEEDED = true; }
            // outside the model bound: behave as if accepted but keep the queue intact
            std::mem::forget(msg);
            return Ok(());
        }
        let idx = (ch.head.get() + len) % CAP;
        unsafe { (*ch.buf.get())[idx] = Some(Box::new(msg)); }
        ch.len.set(len + 1);
        Ok(())
    }
    /// Ghost: number of queued messages.
    pub fn len(&self) -> usize { self.ch.len.get() }
    pub fn is_empty(&self) -> bool { self.ch.len.get() == 0 }
}
impl<T> Clone for Sender<T> {
    fn clone(&self) -> Self { self.ch.senders.set(self.ch.senders.get() + 1); Sender { ch: self.ch.clone() } }
}
impl<T> Drop for Sender<T> {
    fn drop(&mut self) { self.ch.senders.set(self.ch.senders.get() - 1); }
}
impl<T> fmt::Debug for Sender<T> { fn fmt(&self, f: &mut fmt::Formatter<'_>) -> fmt::Result { f.write_str("Sender { .. }") } }

impl<T> Receiver<T> {
    pub fn try_recv(&self) -> Result<T, TryRecvError> {
        let ch = &*self.ch;
        let len = ch.len.get();
        if len == 0 {
            return Err(if ch.senders.get() == 0 { TryRecvError::Disconnected } else { TryRecvError::Empty });
        }
        let head = ch.head.get();
        let msg = unsafe { (*ch.buf.get())[head].take() };
        ch.head.set((head + 1) % CAP);
        ch.len.set(len - 1);
        unsafe { RECEIVED += 1; }
        match msg { Some(m) => Ok(*m), None => Err(TryRecvError::Empty) }
    }
    /// Ghost: number of queued messages.
    pub fn len(&self) -> usize { self.ch.len.get() }
    pub fn is_empty(&self) -> bool { self.ch.len.get() == 0 }
    /// Ghost: number of live senders.
    pub fn sender_count(&self) -> usize { self.ch.senders.get() }
}
impl<T> Drop for Receiver<T> {
    fn drop(&mut self) { self.ch.receivers.set(self.ch.receivers.get() - 1); }
}
impl<T> fmt::Debug for Receiver<T> { fn fmt(&self, f: &mut fmt::Formatter<'_>) -> fmt::Result { f.write_str("Receiver { .. }") } }

trait Handle { fn ready(&self) -> bool; }
impl<T> Handle for Receiver<T> { fn ready(&self) -> bool { self.ch.is_ready() } }

pub const MAX_OPS: usize = 2;
pub struct Select<'a> { ops: [Option<&'a dyn Handle>; MAX_OPS], n: usize }

impl<'a> Select<'a> {
    pub fn new() -> Self { Select { ops: [None, None], n: 0 } }
    pub fn recv<T>(&mut self, r: &'a Receiver<T>) -> usize {
        let i = self.n;
        assert!(i < MAX_OPS, "model Select supports at most 2 operations");
        self.ops[i] = Some(r);
        self.n = i + 1;
        i
    }
    fn ready_set(&self) -> (usize, [bool; MAX_OPS]) {
        let mut r = [false; MAX_OPS];
        let mut cnt = 0;
        let mut i = 0;
        while i < MAX_OPS {
            if let Some(h) = self.ops[i] { if h.ready() { r[i] = true; cnt += 1; } }
            i += 1;
        }
        (cnt, r)
    }
    /// Blocks until one of the operations is ready and returns its index.
    pub fn ready(&mut self) -> usize {
        loop {
            let (cnt, r) = self.ready_set();
            if cnt > 0 {
                unsafe { READY_RETURNS += 1; }
                let pick = match unsafe { CHOICE_HOOK } { Some(f) if cnt > 1 => f(cnt) % cnt, _ => 0 };
                let mut seen = 0;
                let mut i = 0;
                let mut res = 0;
                while i < MAX_OPS {
                    if r[i] { if seen == pick { res = i; break; } seen += 1; }
                    i += 1;
                }
                if let Some(f) = unsafe { READY_HOOK } { f(res); }
                return res;
            }
            match unsafe { BLOCK_HOOK } {
                Some(f) => f(),
                None => panic!("model channel: Select::ready would block forever and no scheduler is installed"),
            }
        }
    }
}
