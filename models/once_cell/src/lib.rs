//! Verification model of `once_cell::sync::OnceCell` (sequential).
//!
//! Trusted contract of the real crate: at most one initialiser runs at a time, other callers
//! block until it finishes; after a successful initialiser the value never changes; a failing
//! initialiser leaves the cell empty. Ghost flag `initializing` detects re-entrant
//! initialisation (reported through `MODEL_REENTRANT`).
pub static mut MODEL_REENTRANT: bool = false;
/// Ghost: number of initialiser closures that were entered.
pub static mut MODEL_INIT_RUNS: usize = 0;
/// Harness callback invoked at the instant the cell becomes initialised (before `get_or_try_init`
/// returns): any other thread may observe `get() == Some(..)` from this point on.
pub static mut ON_INIT_DONE: Option<fn()> = None;
/// Ghost: > 0 while an initialiser closure passed to `get_or_try_init` is running.
pub static mut MODEL_IN_INIT: usize = 0;

pub mod sync {
    use std::cell::{Cell, UnsafeCell};
    pub struct OnceCell<T> { value: UnsafeCell<Option<T>>, initializing: Cell<bool> }
    unsafe impl<T: Sync + Send> Sync for OnceCell<T> {}
    unsafe impl<T: Send> Send for OnceCell<T> {}
    impl<T> Default for OnceCell<T> { fn default() -> Self { Self::new() } }
    impl<T> OnceCell<T> {
        pub const fn new() -> Self { OnceCell { value: UnsafeCell::new(None), initializing: Cell::new(false) } }
        pub const fn with_value(v: T) -> Self { OnceCell { value: UnsafeCell::new(Some(v)), initializing: Cell::new(false) } }
        pub fn get(&self) -> Option<&T> {
            // "Returns None if the cell is empty, or being initialized. This method never blocks."
            unsafe { (*self.value.get()).as_ref() }
        }
        pub fn get_mut(&mut self) -> Option<&mut T> { self.value.get_mut().as_mut() }
        pub fn get_or_init<F: FnOnce() -> T>(&self, f: F) -> &T {
            match self.get_or_try_init(|| Ok::<T, std::convert::Infallible>(f())) { Ok(v) => v, Err(e) => match e {} }
        }
        pub fn get_or_try_init<F: FnOnce() -> Result<T, E>, E>(&self, f: F) -> Result<&T, E> {
            if let Some(v) = self.get() { return Ok(v); }
            if self.initializing.get() { unsafe { super::MODEL_REENTRANT = true; } }
            self.initializing.set(true);
            unsafe { super::MODEL_INIT_RUNS += 1; }
            unsafe { super::MODEL_IN_INIT += 1; }
            let r = f();
            unsafe { super::MODEL_IN_INIT -= 1; }
            self.initializing.set(false);
            match r {
                Ok(v) => {
                    unsafe { *self.value.get() = Some(v); }
                    if let Some(h) = unsafe { super::ON_INIT_DONE } { h(); }
                    Ok(self.get().unwrap())
                }
                Err(e) => Err(e),
            }
        }
        pub fn set(&self, v: T) -> Result<(), T> {
            if self.get().is_some() { return Err(v); }
            unsafe { *self.value.get() = Some(v); }
            Ok(())
        }
        pub fn into_inner(self) -> Option<T> { self.value.into_inner() }
        pub fn take(&mut self) -> Option<T> { self.value.get_mut().take() }
    }
    impl<T: std::fmt::Debug> std::fmt::Debug for OnceCell<T> {
        fn fmt(&self, f: &mut std::fmt::Formatter<'_>) -> std::fmt::Result { f.write_str("OnceCell { .. }") }
    }
}
