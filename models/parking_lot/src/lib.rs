//! Verification model of `parking_lot` (the subset `assets_manager` uses): `RwLock`, `Mutex`,
//! `Condvar` and their guards, single-threaded, with ghost state and harness callbacks.
//!
//! * Ghost state: reader count / writer flag per lock, waiter count and notification epoch per
//!   condition variable.
//! * Every acquire / release / would-block / wait / notify is reported to the harness through
//!   `set_event_hook` (kind, address of the primitive).
//! * Blocking: the model never blocks. An acquisition that would block, and `Condvar::wait`,
//!   call the harness scheduler (`set_block_hook`) until the operation can proceed.
//!   **No spurious wake-ups**: `wait` returns only after a `notify_*` issued after it started
//!   (documented parking_lot behaviour), unless the harness forces an abort (`force_wake`).
//!
//! Trusted: mutual exclusion / reader-writer exclusion of the real primitives.
use std::cell::{Cell, UnsafeCell};
use std::ops::{Deref, DerefMut};

#[derive(Clone, Copy, PartialEq, Eq, Debug)]
pub enum Ev {
    ReadAcquire, ReadRelease, WriteAcquire, WriteRelease, WouldBlockRead, WouldBlockWrite,
    MutexLock, MutexUnlock, WouldBlockMutex, CondWait, CondWake, CondNotify, CondNotifyOne,
}

static mut EVENT_HOOK: Option<fn(Ev, usize)> = None;
static mut BLOCK_HOOK: Option<fn(Ev, usize)> = None;
/// When set, the next return from the block hook inside `Condvar::wait` ends the wait even
/// without a notification (used by harnesses to abort a suspended actor's frame).
static mut FORCE_WAKE: bool = false;
/// When set, `Condvar::notify_*` is ignored (used while an aborted actor's frame unwinds).
static mut MUTE_NOTIFY: bool = false;

pub fn set_event_hook(f: Option<fn(Ev, usize)>) { unsafe { EVENT_HOOK = f } }
pub fn set_block_hook(f: Option<fn(Ev, usize)>) { unsafe { BLOCK_HOOK = f } }
pub fn force_wake(b: bool) { unsafe { FORCE_WAKE = b } }
pub fn mute_notify(b: bool) { unsafe { MUTE_NOTIFY = b } }

#[inline]
fn ev(e: Ev, a: usize) { if let Some(f) = unsafe { EVENT_HOOK } { f(e, a) } }
#[inline]
fn block(e: Ev, a: usize) {
    match unsafe { BLOCK_HOOK } {
        Some(f) => f(e, a),
        None => panic!("model lock: operation would block forever and no scheduler is installed"),
    }
}

// ---------------------------------------------------------------------------------------------
pub struct RwLock<T: ?Sized> { readers: Cell<usize>, writer: Cell<bool>, data: UnsafeCell<T> }
unsafe impl<T: ?Sized + Send> Send for RwLock<T> {}
unsafe impl<T: ?Sized + Send + Sync> Sync for RwLock<T> {}

pub struct RwLockReadGuard<'a, T: ?Sized> { lock: &'a RwLock<T> }
pub struct RwLockWriteGuard<'a, T: ?Sized> { lock: &'a RwLock<T> }
unsafe impl<T: ?Sized + Sync> Sync for RwLockReadGuard<'_, T> {}
unsafe impl<T: ?Sized + Sync> Sync for RwLockWriteGuard<'_, T> {}

impl<T> RwLock<T> {
    pub const fn new(v: T) -> Self { RwLock { readers: Cell::new(0), writer: Cell::new(false), data: UnsafeCell::new(v) } }
    pub fn into_inner(self) -> T { self.data.into_inner() }
}
impl<T: ?Sized> RwLock<T> {
    #[inline] fn addr(&self) -> usize { &self.readers as *const _ as usize }
    pub fn read(&self) -> RwLockReadGuard<'_, T> {
        while self.writer.get() { ev(Ev::WouldBlockRead, self.addr()); block(Ev::WouldBlockRead, self.addr()); }
        self.readers.set(self.readers.get() + 1);
        ev(Ev::ReadAcquire, self.addr());
        RwLockReadGuard { lock: self }
    }
    pub fn write(&self) -> RwLockWriteGuard<'_, T> {
        while self.writer.get() || self.readers.get() != 0 { ev(Ev::WouldBlockWrite, self.addr()); block(Ev::WouldBlockWrite, self.addr()); }
        self.writer.set(true);
        ev(Ev::WriteAcquire, self.addr());
        RwLockWriteGuard { lock: self }
    }
    /// Non-blocking acquisitions: refuse exactly when the blocking form would have to wait.
    pub fn try_read(&self) -> Option<RwLockReadGuard<'_, T>> {
        if self.writer.get() { ev(Ev::WouldBlockRead, self.addr()); return None; }
        Some(self.read())
    }
    pub fn try_write(&self) -> Option<RwLockWriteGuard<'_, T>> {
        if self.writer.get() || self.readers.get() != 0 { ev(Ev::WouldBlockWrite, self.addr()); return None; }
        Some(self.write())
    }
    pub fn get_mut(&mut self) -> &mut T { self.data.get_mut() }
    /// Ghost: number of live read guards.
    pub fn model_readers(&self) -> usize { self.readers.get() }
    /// Ghost: whether a write guard is live.
    pub fn model_writer(&self) -> bool { self.writer.get() }
}
impl<T: ?Sized> Deref for RwLockReadGuard<'_, T> { type Target = T; fn deref(&self) -> &T { unsafe { &*self.lock.data.get() } } }
impl<T: ?Sized> Deref for RwLockWriteGuard<'_, T> { type Target = T; fn deref(&self) -> &T { unsafe { &*self.lock.data.get() } } }
impl<T: ?Sized> DerefMut for RwLockWriteGuard<'_, T> { fn deref_mut(&mut self) -> &mut T { unsafe { &mut *self.lock.data.get() } } }
impl<T: ?Sized> Drop for RwLockReadGuard<'_, T> {
    fn drop(&mut self) { self.lock.readers.set(self.lock.readers.get() - 1); ev(Ev::ReadRelease, self.lock.addr()); }
}
impl<T: ?Sized> Drop for RwLockWriteGuard<'_, T> {
    fn drop(&mut self) { self.lock.writer.set(false); ev(Ev::WriteRelease, self.lock.addr()); }
}
impl<T: ?Sized + std::fmt::Debug> std::fmt::Debug for RwLock<T> {
    fn fmt(&self, f: &mut std::fmt::Formatter<'_>) -> std::fmt::Result { f.write_str("RwLock { .. }") }
}

// ---------------------------------------------------------------------------------------------
pub struct Mutex<T: ?Sized> { locked: Cell<bool>, data: UnsafeCell<T> }
unsafe impl<T: ?Sized + Send> Send for Mutex<T> {}
unsafe impl<T: ?Sized + Send> Sync for Mutex<T> {}
pub struct MutexGuard<'a, T: ?Sized> { mutex: &'a Mutex<T> }
unsafe impl<T: ?Sized + Sync> Sync for MutexGuard<'_, T> {}

impl<T> Mutex<T> {
    pub const fn new(v: T) -> Self { Mutex { locked: Cell::new(false), data: UnsafeCell::new(v) } }
    pub fn into_inner(self) -> T { self.data.into_inner() }
}
impl<T: Default> Default for Mutex<T> { fn default() -> Self { Mutex::new(T::default()) } }
impl<T: ?Sized> Mutex<T> {
    #[inline] fn addr(&self) -> usize { &self.locked as *const _ as usize }
    fn acquire(&self) {
        while self.locked.get() { ev(Ev::WouldBlockMutex, self.addr()); block(Ev::WouldBlockMutex, self.addr()); }
        self.locked.set(true);
        ev(Ev::MutexLock, self.addr());
    }
    fn release(&self) { self.locked.set(false); ev(Ev::MutexUnlock, self.addr()); }
    pub fn lock(&self) -> MutexGuard<'_, T> { self.acquire(); MutexGuard { mutex: self } }
    pub fn get_mut(&mut self) -> &mut T { self.data.get_mut() }
    /// Ghost: whether the mutex is held.
    pub fn model_locked(&self) -> bool { self.locked.get() }
    /// Ghost: raw access to the protected data for harness snapshots.
    pub fn model_data_ptr(&self) -> *mut T { self.data.get() }
}
impl<T: ?Sized> Deref for MutexGuard<'_, T> { type Target = T; fn deref(&self) -> &T { unsafe { &*self.mutex.data.get() } } }
impl<T: ?Sized> DerefMut for MutexGuard<'_, T> { fn deref_mut(&mut self) -> &mut T { unsafe { &mut *self.mutex.data.get() } } }
impl<T: ?Sized> Drop for MutexGuard<'_, T> { fn drop(&mut self) { self.mutex.release(); } }
impl<T: ?Sized> std::fmt::Debug for Mutex<T> {
    fn fmt(&self, f: &mut std::fmt::Formatter<'_>) -> std::fmt::Result { f.write_str("Mutex { .. }") }
}

// ---------------------------------------------------------------------------------------------
pub struct Condvar { epoch: Cell<usize>, waiters: Cell<usize> }
unsafe impl Send for Condvar {}
unsafe impl Sync for Condvar {}
impl Default for Condvar { fn default() -> Self { Condvar::new() } }
impl std::fmt::Debug for Condvar {
    fn fmt(&self, f: &mut std::fmt::Formatter<'_>) -> std::fmt::Result { f.write_str("Condvar { .. }") }
}
impl Condvar {
    pub const fn new() -> Self { Condvar { epoch: Cell::new(0), waiters: Cell::new(0) } }
    #[inline] fn addr(&self) -> usize { &self.epoch as *const _ as usize }
    pub fn notify_all(&self) -> usize {
        if unsafe { MUTE_NOTIFY } { return 0; }
        self.epoch.set(self.epoch.get().wrapping_add(1));
        ev(Ev::CondNotify, self.addr());
        self.waiters.get()
    }
    /// wakes (at most) one waiter: reported separately, a monitor shared by several kinds of waiters needs notify_all
    pub fn notify_one(&self) -> bool {
        if unsafe { MUTE_NOTIFY } { return false; }
        self.epoch.set(self.epoch.get().wrapping_add(1));
        ev(Ev::CondNotifyOne, self.addr());
        self.waiters.get() > 0
    }
    pub fn wait<T: ?Sized>(&self, guard: &mut MutexGuard<'_, T>) {
        let e0 = self.epoch.get();
        self.waiters.set(self.waiters.get() + 1);
        guard.mutex.release();
        ev(Ev::CondWait, self.addr());
        loop {
            block(Ev::CondWait, self.addr());
            if self.epoch.get() != e0 { break; }
            if unsafe { FORCE_WAKE } { break; }
        }
        self.waiters.set(self.waiters.get() - 1);
        guard.mutex.acquire();
        ev(Ev::CondWake, self.addr());
    }
    /// Ghost: notification epoch (number of `notify_*` calls so far).
    pub fn model_epoch(&self) -> usize { self.epoch.get() }
    /// Ghost: number of threads inside `wait`.
    pub fn model_waiters(&self) -> usize { self.waiters.get() }
}
