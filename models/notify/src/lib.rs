//! Verification shell of `notify`: only the types `assets_manager` names, never executed.
use std::path::{Path, PathBuf};
use std::fmt;

#[derive(Debug)]
pub struct Error;
impl fmt::Display for Error { fn fmt(&self, f: &mut fmt::Formatter<'_>) -> fmt::Result { f.write_str("notify model error") } }
impl std::error::Error for Error {}
pub type Result<T> = std::result::Result<T, Error>;

#[derive(Debug, Clone, Copy, PartialEq, Eq)] pub struct AccessKind;
#[derive(Debug, Clone, Copy, PartialEq, Eq)] pub struct CreateKind;
#[derive(Debug, Clone, Copy, PartialEq, Eq)] pub struct ModifyKind;
#[derive(Debug, Clone, Copy, PartialEq, Eq)] pub struct RemoveKind;

#[derive(Debug, Clone, Copy, PartialEq, Eq)]
pub enum EventKind { Any, Access(AccessKind), Create(CreateKind), Modify(ModifyKind), Remove(RemoveKind), Other }

#[derive(Debug, Clone)]
pub struct Event { pub kind: EventKind, pub paths: Vec<PathBuf> }

pub trait EventHandler: Send + 'static { fn handle_event(&mut self, event: Result<Event>); }

#[derive(Debug, Clone, Copy, PartialEq, Eq)]
pub enum RecursiveMode { Recursive, NonRecursive }

pub trait Watcher { fn watch(&mut self, path: &Path, mode: RecursiveMode) -> Result<()>; }

#[derive(Debug)]
pub struct RecommendedWatcher;
impl Watcher for RecommendedWatcher { fn watch(&mut self, _path: &Path, _mode: RecursiveMode) -> Result<()> { Err(Error) } }

pub fn recommended_watcher<F: EventHandler>(_handler: F) -> Result<RecommendedWatcher> { Err(Error) }
