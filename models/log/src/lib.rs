//! Verification model of `log`: every logging macro has an empty body.
#[macro_export] macro_rules! trace { ($($t:tt)*) => {{}}; }
#[macro_export] macro_rules! debug { ($($t:tt)*) => {{}}; }
#[macro_export] macro_rules! info { ($($t:tt)*) => {{}}; }
#[macro_export] macro_rules! warn { ($($t:tt)*) => {{}}; }
#[macro_export] macro_rules! error { ($($t:tt)*) => {{}}; }
